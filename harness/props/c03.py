"""C03 — stub matching is uniform (configuration-model measure).
Exact oracle-tree enumeration: the REAL generator is run under every resolution of its random calls (every
permutation random.shuffle can return, for every topology) for all small joint degree sequences; the verified
checker c03_check confirms that the histogram of realised placements is flat and complete over the product of all
arrangements of the stub lists; the model side (c03_run) is the Coq sample space `schedules` pushed through the
generator model."""
import itertools
import math
from fractions import Fraction

from harness import oracles
from harness.props import gen_common as G

ID = "C03"
RULE = ("case = (generator type, construction path, jds, sizes, callbacks, motif_indices) with <=4 stubs per topology "
        "and <=2 topologies: all jds with N<=4 (one topology) / N<=3 (two) in quick, N<=4 in thorough; for each case "
        "the whole oracle tree is walked (n! answers per shuffle, every other random entry point is an error or, for "
        "randrange/choice/randint, a uniform branch), so one evaluation = up to 576 runs of the real generator; "
        "compared: multiset of (callback calls) over all leaves vs the model over the Coq sample space, shuffle "
        "protocol on every leaf; the corpus (judged first) holds the four-degree-1-vertices example and 21 inputs with a vertex "
        "of degree >= 2 in a topology (degenerate placements must carry their full weight). NON-DIVISIBLE sequences "
        "(some topology's stub count is not a multiple of its motif size; fast / network generator, all construction paths): "
        "every one with one topology under the same bounds, every 5th / 16th (quick; offset drawn from the seed) or 3rd / 4th "
        "(thorough) with two -- the short last group is handed to the callback, so WHICH stubs are left over must be uniform "
        "as well; six of them in the corpus. UNUSED TOPOLOGIES: every one-topology column C (N<=3 quick / N<=4 thorough, sum<=4) "
        "embedded with all-zero columns that are not the last topology ([0,C], [C,0,C], [0,0,C] in rotation, the unused "
        "topology's size rotating over 1..4), twelve of them in the corpus. COLLECTED ENSEMBLES: every second case of the families (parity drawn from the "
        "seed) and 17 corpus entries draw the whole ensemble from ONE algorithm object and one jds list (one call per leaf "
        "of the oracle tree), keep every returned object untouched and tabulate AFTER the last draw from what the kept objects "
        "hold then (a kept result whose contents changed counts for the placement it shows now, or for none); the same "
        "c03_check judges that histogram, so results of successive calls that alias each other give a point mass. LONG STUB LISTS, checker only (no model call, no enumeration): 3 (thorough 12) "
        "runs of the fast / network generator on 70000-76000 stubs (motif size 2/3/4; every vertex one stub, or 30-60 hubs; "
        "sometimes a second 12-stub topology before or after) with random.shuffle scripted per topology to [optional "
        "reversal, left rotation by r] (r = a third of the list, half of a power-of-two block +-, 1, random), so that stubs "
        "cross every block boundary; judged over Z by c03_check_big: the shuffle entry point got exactly the specification's "
        "stub lists, once per topology, whole and in order, the script was used up, and the callback arguments are the "
        "consecutive size_k-chunks of the permuted lists. Non-trivial = at least two distinct placements; distinct by (type, jds, sizes, indices)")
EXHAUSTIVE = {"quick": True, "thorough": True}
EXPLANATION = ("counting theorems (all stub lists, any length) in Props/C03.v; the histogram checker is proved to DECIDE "
               "'flat and complete' and to accept the model's histogram (also in the form c03_check computes it, from the "
               "callback calls of every run) for every valid input; per case the enumeration over the RNG outcomes is "
               "exhaustive; the family of handshake-consistent jds is exhaustive under the stated bounds, the non-divisible "
               "ones (fast / network only; C03_placement_fast_is_shuffle_any_length) exhaustive for one topology and a "
               "fixed-stride sample for two; stub lists of 70000+ entries are judged run by run by c03_check_big under scripted "
               "structured permutations (C03_big_checker_sound / _placement: what it accepts is the model's plan under a "
               "schedule of genuine permutations, its placement is the one whole-list shuffle per topology)")
ASSUMPTIONS = ["CPython's random.shuffle is uniform over the n! permutations of its argument and successive calls are "
               "independent (trusted base, DESIGN section 6)"]
TRUSTED = ["oracle-tree walker in harness/props/c03.py (replays a prefix of answers, branches on the first unscripted call)",
           "long runs: BigScript in harness/props/c03.py applies [reversal, rotation] in place and logs the list every "
           "random.shuffle call was handed; the jds is rebuilt from the case's parameters (big_jds)"]
TECHNIQUE = ("Coq counting proofs over the explicit sample space (all permutations per topology, product over "
             "topologies) + exact oracle-tree enumeration of the real generator judged by a verified histogram checker")
LEVEL_TEXT = (
    "General theorems in coq/Props/C03.v: the sample space perms(positions) is complete and duplicate-free "
    "(every assignment of labelled stubs to slots occurs exactly once), every vertex-level arrangement of a stub "
    "list has the same multiplicity in it, the joint space is the product over topologies (independence), and "
    "relabelling vertices permutes the space. The checker c03_check (flat and complete histogram over the "
    "placement space) is proved sound AND complete (C03_checker_iff_spec), and it is proved to accept the model's "
    "own histogram for EVERY joint degree sequence (C03_model_passes_checker; #schedules = #placements * "
    "multiplicity). The map 'callback calls -> placement' that c03_check applies to each observed run is tied to "
    "the shuffles by theorems for all valid configurations and all schedules: for the fast/network generator the "
    "placement read off the calls IS shuffle_all (C03_placement_fast_is_shuffle), for the custom generator it is "
    "the block-reversed shuffle_all (list.pop() order; C03_placement_custom_is_block_reversed_shuffle), an "
    "involutive bijection on arrangements, so the call-level histogram over the whole schedule space passes the "
    "checker for both generators (C03_fast_calls_pass_checker, C03_custom_calls_pass_checker). The real generators "
    "are tied to this by exact enumeration of every shuffle outcome for all small jds (<=4 stubs per topology, "
    "<=2 topologies) and by the shuffle protocol check (exactly one random.shuffle per topology on the full stub "
    "list, no other randomness). The handshake condition is NOT needed for the fast / network generator: "
    "C03_placement_fast_is_shuffle_any_length / C03_fast_calls_pass_checker_any_length prove the same for every "
    "rectangular jds with positive sizes (the short last group is passed on as it is), so c03_check also judges "
    "non-divisible sequences there (hypothesis validb_nohs). Lists too long for the enumeration (and for unary naturals) "
    "are covered by the checker over Z c03_check_big on single runs under scripted structured permutations: "
    "C03_big_checker_sound proves that acceptance means one whole-list shuffle per topology on exactly the "
    "specification's stub lists, scripted answers that are permutations (PisOk), and callback calls equal to the "
    "model's plan_fast under that schedule; C03_big_checker_placement adds that the placement read off the calls is "
    "shuffle_all of those answers, an arrangement of every stub list (this says nothing about the law of "
    "random.shuffle itself on long lists, which stays trusted; it rules out a generator that does anything but one "
    "whole-list shuffle per topology followed by consecutive grouping). For the custom generator (which pops the short partition "
    "first and drops a full one) divisibility stays a hypothesis.")
LEVEL_NOTE = ("Trusted: uniformity and independence of CPython's random.shuffle; Coq kernel; extraction + driver + "
              "harness. The statement is about the law induced by a uniform shuffle, not about the Mersenne Twister.")
IMPL_TIMEOUT = 60.0
BATCH = 150     # core stops after the first batch that holds a concrete violation

MAX_SHUFFLE = 5
MAX_LEAVES = 4000


class TreeTooBig(Exception):
    pass


class Walker:
    """scripted randomness that follows `path` (list of [choice, arity]) and extends it with choice 0"""

    def __init__(self, path):
        self.answers = []
        self.pos = 0
        self.reset(path)

    def reset(self, path):
        self.path = path
        self.depth = 0
        self.log = []          # compatible with oracles.Script.log: ('shuffle', before, perm)

    def branch(self, arity):
        if arity <= 0:
            raise oracles.OracleProtocol("empty choice")
        if self.depth < len(self.path):
            c, a = self.path[self.depth]
            if a != arity:
                raise oracles.OracleProtocol("non-deterministic oracle tree")
        else:
            c = 0
            self.path.append([0, arity])
        self.depth += 1
        return c

    def shuffle(self, x):
        n = len(x)
        if n > MAX_SHUFFLE:
            raise TreeTooBig()
        idx = self.branch(math.factorial(n))
        perm = list(nth_perm(n, idx))
        self.log.append(("shuffle", list(x), perm))
        old = list(x)
        for i, p in enumerate(perm):
            x[i] = old[p]

    def randrange(self, a, b=None):
        if b is None:
            a, b = 0, a
        return a + self.branch(b - a)

    def randint(self, a, b):
        return a + self.branch(b - a + 1)

    def choice(self, seq):
        if len(seq) == 0:
            raise IndexError("Cannot choose from an empty sequence")
        return seq[self.branch(len(seq))]

    def sample(self, population, k):
        pop = list(population)
        if len(pop) > MAX_SHUFFLE:
            raise TreeTooBig()
        opts = list(itertools.permutations(range(len(pop)), k))
        return [pop[i] for i in opts[self.branch(len(opts))]]

    def random(self):
        raise oracles.OracleProtocol("random.random() cannot be enumerated")

    def choices(self, *a, **k):
        raise oracles.OracleProtocol("random.choices() not expected in the generators")


_PERMS = {}


def nth_perm(n, idx):
    if n not in _PERMS:
        _PERMS[n] = list(itertools.permutations(range(n)))
    return _PERMS[n][idx]


def walk(case):
    """all leaves of the oracle tree: list of (observation, Fraction weight)"""
    leaves = []
    path = []
    w = Walker(path)
    with G.strict_scripted(w):
        return _walk(case, w, path, leaves)


def _fingerprint(d):
    return repr(sorted((k, d[k]) for k in ("nodes", "jds_out", "net_edges", "edges", "names", "ids") if k in d))


def _walk(case, w, path, leaves):
    """case['collect'] (collect-then-tabulate): ONE algorithm object draws the whole ensemble -- one call per leaf of
    the oracle tree -- the caller keeps every returned object, untouched, and reads them all AFTER the last draw.  The
    histogram handed to the verified checker is then the one of the RE-OBSERVED results: a kept result that still
    holds what it held when it was returned counts for its own placement; one whose contents changed counts for the
    placement whose result it now shows (or for no placement at all)."""
    collect = bool(case.get("collect"))
    runner, kept = None, []
    if collect:
        runner = G.Runner(case)
        runner.keep_results = True
    while True:
        w.reset(path)
        if collect:
            obs = runner.step(case["jds"], w, True, case.get("rows", "tuple"))
            kept.append((runner.last_out, _fingerprint(obs)))
        else:
            obs = G.run_real(case, w, patched=True)
        if w.depth != len(path):
            raise oracles.OracleProtocol("oracle tree changed shape")
        weight = Fraction(1)
        for _, a in path:
            weight /= a
        leaves.append((obs, weight))
        if len(leaves) > MAX_LEAVES:
            raise TreeTooBig()
        # next path in depth-first order
        while path and path[-1][0] == path[-1][1] - 1:
            path.pop()
        if not path:
            break
        path[-1][0] += 1
    if collect:
        by_fp = {}
        for (obs, _), (_, fp) in zip(leaves, kept):
            by_fp.setdefault(fp, obs["calls"])
        for (obs, _), (out, fp) in zip(leaves, kept):
            try:
                now = _fingerprint(runner.read_out(out))
            except Exception:  # noqa: BLE001
                now = None
            obs["calls_drawn"] = obs["calls"]
            if now != fp:
                obs["changed_later"] = True
                # the placement whose result the kept object shows now; none: a call no placement contains
                obs["calls"] = by_fp.get(now, [[G.BAD, [G.BAD]]])
    return leaves


def corpus():
    out = []
    # four vertices of degree one: each of the three perfect matchings with probability 1/3
    for tag in (G.FAST, G.MOTIFS, G.NETWORK):
        out.append({"tag": tag, "via": "direct", "jds": [[1], [1], [1], [1]], "sizes": [2], "codes": [G.CLIQUE],
                    "names": [[1]], "mis": [[0]] if tag == G.MOTIFS else []})
    out.append({"tag": G.FAST, "via": "main", "jds": [[1, 1], [1, 2], [2, 0]], "sizes": [2, 3], "codes": [G.CLIQUE, G.CLIQUE],
                "names": [[1], [2]], "mis": []})
    # an all-zero topology column in front of / between used ones (C03-r7-3: `break` at the first empty stub list)
    for tag, via in ((G.FAST, "direct"), (G.NETWORK, "factory"), (G.MOTIFS, "main")):
        for jds, sizes in (([[0, 1]] * 4, [2, 2]), ([[0, 1]] * 3, [2, 3]), ([[1, 0, 1]] * 2, [2, 3, 1]), ([[0, 0, 2], [0, 0, 1]], [1, 4, 3])):
            T = len(sizes)
            out.append({"tag": tag, "via": via, "jds": jds, "sizes": sizes, "codes": [G.CLIQUE] * T,
                        "names": [[k + 1] for k in range(T)], "mis": [[k] for k in range(T)] if tag == G.MOTIFS else []})
    # the same ensembles COLLECTED from one generator object and tabulated after the last draw (C03-r7-1: one result
    # container per generator object, every kept result shows the last draw)
    out += [dict(c, collect=True) for c in list(out)]
    out.append({"tag": G.MOTIFS, "via": "factory", "jds": [[1, 2], [1, 0], [2, 0]], "sizes": [2, 1], "codes": [G.STAR],
                "names": [[1, 2]], "mis": [[0, 1]]})
    # a vertex of degree >= 2 in a topology: some outcomes put two of its stubs into ONE motif (degenerate placement,
    # self-loop).  Those placements carry exactly the configuration-model weight -- a generator that re-draws,
    # repairs or conditionally re-shuffles them is not uniform (C03-r2-3).  Cheap trees, so they are judged first.
    for tag, via in ((G.FAST, "direct"), (G.NETWORK, "main"), (G.MOTIFS, "direct")):
        mis1 = [[0]] if tag == G.MOTIFS else []
        for jds, size in (([[2], [1], [1]], 2), ([[3], [1]], 2), ([[2], [2]], 2), ([[2], [1]], 3), ([[2], [1], [1]], 4),
                          ([[2], [1], [1], [1]], 5)):
            out.append({"tag": tag, "via": via, "jds": jds, "sizes": [size], "codes": [G.CLIQUE], "names": [[1]],
                        "mis": mis1})
        out.append({"tag": tag, "via": via, "jds": [[2, 1], [1, 1], [1, 0]], "sizes": [2, 2], "codes": [G.CLIQUE, G.CLIQUE],
                    "names": [[1], [2]], "mis": [[0], [1]] if tag == G.MOTIFS else []})
    # stub count NOT a multiple of the motif size (fast / network): WHICH stub is left over is uniform as well
    # (C03-r3-2: surplus stubs dropped before the shuffle, the highest-numbered vertices always lose)
    for (tag, via), (jds, size) in zip(ND_TV, (([[1], [1], [1]], 2), ([[1]] * 5, 2), ([[1]] * 4, 3), ([[2], [1], [1], [1]], 2),
                                               ([[1], [1], [1]], 4), ([[1], [2], [1]], 3))):
        out.append({"tag": tag, "via": via, "jds": jds, "sizes": [size], "codes": [G.CLIQUE], "names": [[1]], "mis": [],
                    "nondiv": True})
    return out


ND_TV = [(G.FAST, "direct"), (G.NETWORK, "main"), (G.FAST, "main"), (G.NETWORK, "direct"), (G.FAST, "factory"),
         (G.NETWORK, "factory")]


def family(N_max1, N_max2, maxsum, tags_vias, nondiv=None):
    """handshake-consistent jds: every one, generator types in rotation.  nondiv = (stride, offset): ALSO the jds in
    which some topology's stub count is NOT a multiple of its motif size (fast / network generator only: the short
    last group is handed to the callback, so the calls still carry the whole shuffled stub list and c03_check judges
    them, GenC03P.placement_fast_nohs) -- every one with one topology, every stride-th with two."""
    i = 0
    j = 0
    for T, N_max in ((1, N_max1), (2, N_max2)):
        for N in range(1, N_max + 1):
            cols = [c for c in G.small_columns(N, maxsum, maxsum) if sum(c) > 0]
            for colset in itertools.product(cols, repeat=T):
                sums = [sum(c) for c in colset]
                jds = [[colset[k][v] for k in range(T)] for v in range(N)]
                for sizes in itertools.product((1, 2, 3, 4), repeat=T):
                    if any(s % n for s, n in zip(sums, sizes)):
                        if nondiv is None:
                            continue
                        j += 1
                        if T > 1 and (j + nondiv[1]) % nondiv[0]:
                            continue
                        tag, via = ND_TV[j % len(ND_TV)]
                        yield {"tag": tag, "via": via, "jds": jds, "sizes": list(sizes), "codes": [G.CLIQUE] * T,
                               "names": G.names_for(tag, [G.CLIQUE] * T, list(sizes), [[k] for k in range(T)]),
                               "mis": [], "nondiv": True}
                        continue
                    tag, via = tags_vias[i % len(tags_vias)]
                    i += 1
                    mis = [[k] for k in range(T)]
                    if tag == G.MOTIFS and T == 2 and sums[0] // sizes[0] == sums[1] // sizes[1] and i % 2:
                        mis = [[1, 0]]
                    codes = [G.CLIQUE if sum(sizes[j_] for j_ in idxs) != 2 or tag != G.MOTIFS else G.BARE for idxs in mis]
                    yield {"tag": tag, "via": via, "jds": jds, "sizes": list(sizes), "codes": codes,
                           "names": G.names_for(tag, codes, list(sizes), mis), "mis": mis if tag == G.MOTIFS else []}


def zero_column_family(N_max, maxsum, tags_vias):
    """joint degree sequences with an ALL-ZERO topology column that is NOT the last one (C03-r7-3: the shuffle loop left
    at the first empty stub list, every later topology stays in vertex order): every one-topology column C of the
    family embedded as [0, C], [C, 0, C] and [0, 0, C], in rotation; the unused topology's motif size rotates over
    1..4 (every size divides 0).  The unused topology contributes one (empty) shuffle and no callback call."""
    i = 0
    for N in range(1, N_max + 1):
        for col in G.small_columns(N, maxsum, maxsum):
            S = sum(col)
            if S == 0:
                continue
            for size in (1, 2, 3, 4):
                if S % size:
                    continue
                i += 1
                layout = ["ZC", "CZC", "ZZC"][i % 3]
                if layout == "CZC" and S > 3:
                    layout = "ZC"                      # keep the tree small (S! ** 2 leaves)
                zs = 1 + (i // 3) % 4
                tag, via = tags_vias[i % len(tags_vias)]
                sizes = [size if ch == "C" else zs for ch in layout]
                T = len(layout)
                jds = [[col[v] if ch == "C" else 0 for ch in layout] for v in range(N)]
                mis = [[k] for k in range(T)]
                codes = [G.CLIQUE] * T
                c = {"tag": tag, "via": via, "jds": jds, "sizes": sizes, "codes": codes,
                     "names": G.names_for(tag, codes, sizes, mis), "mis": mis if tag == G.MOTIFS else []}
                yield c


# ------------------------------------------------------------------ LONG stub lists, checker only (lessons 13, 29)
# The enumeration stops at a handful of stubs; a generator may treat LONG lists differently (C03-r6-2: lists of more
# than 65536 stubs shuffled block-wise, stubs never leave their block).  The real fast / network generator is run on
# 70000+ stubs with random.shuffle scripted to a structured permutation per topology -- optional reversal, then a left
# rotation by r, so that elements cross every conceivable block boundary -- and the verified checker over Z
# (GenBig.c03_check_big) judges: the shuffle entry point got exactly the specification's stub lists, once per topology,
# whole and in order, the script was used up, and the callback calls are the consecutive chunks of the permuted lists.
BIG_BLOCKS = [1 << 16, 1 << 15, 1 << 14, 10000, 4096]


def big_case(rng, tag=None):
    tag = tag if tag is not None else rng.choice([G.FAST, G.FAST, G.NETWORK])
    layout = rng.choice(["deg1", "deg1", "hubs"])
    size = rng.choice([2, 2, 3, 4])
    n_motifs = rng.randint(70000 // size + 1, 76000 // size)
    small = rng.choice([None, None, "before", "after"])      # a second, short topology (its own shuffle)
    spec = {"layout": layout, "size": size, "n_motifs": n_motifs, "small": small, "seed": rng.randrange(1 << 30),
            "hubs": rng.randint(30, 60)}
    total = size * n_motifs
    perms = []
    for length in ([12] if small == "before" else []) + [total] + ([12] if small == "after" else []):
        kind = rng.choice(["third", "block", "rev", "rev-rot", "one"])
        if kind == "third":
            sp = [0, length // 3 + rng.randint(0, 5)]
        elif kind == "block":
            sp = [rng.randint(0, 1), min(length - 1, rng.choice(BIG_BLOCKS) // 2 + rng.randint(0, 9))]
        elif kind == "rev":
            sp = [1, 0]
        elif kind == "rev-rot":
            sp = [1, rng.randrange(length)]
        else:
            sp = [0, 1]
        perms.append(sp)
    sizes = ([3] if small == "before" else []) + [size] + ([2] if small == "after" else [])
    return {"tag": tag, "via": rng.choice(G.VIAS), "jds": [], "sizes": sizes, "codes": [G.CLIQUE if x <= 3 else G.CYCLE for x in sizes],
            "names": [[10 + k] for k in range(len(sizes))], "mis": [], "big": spec, "specs": perms}


def big_jds(case):
    """the jds of a long run (list of tuples, columns in topology order), rebuilt from the case's parameters"""
    import random as _r
    spec = case["big"]
    r = _r.Random(spec["seed"])
    total = spec["size"] * spec["n_motifs"]
    if spec["layout"] == "deg1":
        col = [1] * total + [0] * r.randint(0, 50)           # some vertices of degree zero
        r.shuffle(col)
    else:
        col = [0] * spec["hubs"]
        for _ in range(total):
            col[r.randrange(len(col))] += 1
    N = len(col)
    small = [0] * N
    for _ in range(12):
        small[r.randrange(N)] += 1
    if spec["small"] == "before":
        return [(a, b) for a, b in zip(small, col)]
    if spec["small"] == "after":
        return [(b, a) for a, b in zip(small, col)]
    return [(b,) for b in col]


class BigScript:
    """random.shuffle scripted to [reverse?, rotate-left r] per call; every call is logged with the list it was handed;
    calls beyond the script are answered by the identity (and logged); every other entry point is a protocol error"""

    def __init__(self, specs):
        self.answers = [("shuffle", sp) for sp in specs]
        self.pos = 0
        self.log = []

    def shuffle(self, x):
        self.log.append([v if type(v) is int else -1 for v in x])
        if self.pos < len(self.answers):
            rev, r = self.answers[self.pos][1]
            self.pos += 1
            if rev:
                x.reverse()
            if r:
                x[:] = x[r:] + x[:r]

    def _no(self, *a, **k):
        raise oracles.OracleProtocol("only random.shuffle is scripted in a long run")
    choice = randrange = random = choices = _no


def run_big(case):
    jds = big_jds(case)
    log = []

    def wrap(j, code):
        fn = G.py_builder(code)

        def cb(vs):
            log.append([j, [v if type(v) is int else -1 for v in vs]])
            return fn(vs)
        return cb
    builders = [wrap(j, c) for j, c in enumerate(case["codes"])]
    names = [G.name_str(n[0]) for n in case["names"]]
    script = BigScript(case["specs"])
    with G.strict_scripted(script):
        alg = G.construct(case, builders, names)
        out = alg.random_clustered_graph(jds)
    return {"big": True, "shuffles": script.log[:8], "n_shuffles": len(script.log), "left": len(script.answers) - script.pos,
            "calls": log[:G.HUGE_LIMIT], "n_calls": len(log), "hist": [[], []], "returned": type(out).__name__}


def generate(rng, tier):
    tv = [(G.FAST, "direct"), (G.MOTIFS, "direct"), (G.NETWORK, "main"), (G.MOTIFS, "factory"), (G.FAST, "main")]
    # long stub lists first (checker only; three runs in quick, twelve in thorough; one to two seconds each)
    for i in range(3 if tier == "quick" else 12):
        yield big_case(rng, [G.FAST, G.NETWORK, G.FAST, G.FAST][i % 4])
    yield from _collecting(zero_column_family(3 if tier == "quick" else 4, 4, tv), rng.randrange(2))
    if tier == "quick":
        yield from _collecting(family(4, 2, 4, tv, nondiv=(5, rng.randrange(5))), rng.randrange(2))
        yield from _collecting(family(0, 3, 3, tv, nondiv=(16, rng.randrange(16))), rng.randrange(2))
    else:
        yield from _collecting(family(4, 3, 4, tv, nondiv=(3, rng.randrange(3))), rng.randrange(2))
        yield from _collecting(family(5, 4, 3, tv[1:] + tv[:1], nondiv=(4, rng.randrange(4))), rng.randrange(2))


def _collecting(cases, offset):
    """every second case is an ENSEMBLE COLLECTED FROM ONE GENERATOR OBJECT: all draws first (one call per RNG outcome on
    the same algorithm object and jds list), every returned object kept, the histogram tabulated afterwards from what
    the kept objects hold then (results of successive calls must not alias each other: C03-r7-1)"""
    for k, c in enumerate(cases):
        yield dict(c, collect=True) if (k + offset) % 2 else c


def impl(case):
    if "big" in case:
        return run_big(case)
    try:
        leaves = walk(case)
    except TreeTooBig:
        return ["!exc", "TreeTooBig"]
    # histogram of outcomes (callback calls), integer multiplicities
    den = 1
    for _, w in leaves:
        den = den * w.denominator // math.gcd(den, w.denominator)
    hist = {}
    proto = None
    n_sh = None
    changed = sum(1 for obs, _ in leaves if obs.get("changed_later"))
    for obs, w in leaves:
        key = repr(obs["calls"])
        if key not in hist:
            hist[key] = [obs["calls"], 0]
        hist[key][1] += int(w * den)
        sh = [s[0] for s in obs["shuffles"]]
        if n_sh is None:
            n_sh = sh
        elif sh != n_sh and proto is None:
            proto = "shuffled lists differ between leaves: %r vs %r" % (sh, n_sh)
    g = 0
    for _, m in hist.values():
        g = math.gcd(g, m)
    items = sorted(hist.values(), key=lambda x: repr(x[0]))
    return {"hist": [[c, m // max(g, 1)] for c, m in items], "leaves": len(leaves), "shuffled": n_sh or [],
            "protocol": proto, "calls": items[0][0] if items else [], "results": [], "changed_later": changed}


def model_calls(case, impl_obs):
    if "big" in case:
        return []            # checker only: the unary-nat model cannot hold 70000 stubs
    return [("c03_run", G.model_tree(case, with_pis=False)),
            ("c01_run", G.model_tree(dict(case, pis=[list(range(s)) for s in G.col_sums(case["jds"])])))]


def model_obs(case, raws):
    if "big" in case:
        return {}
    outs, one = raws
    if isinstance(outs, str):
        return ["!model", outs]
    hist = {}
    for o in outs:
        if G.is_err_tree(o):
            return ["!exc", G.ERR.get(o[1], str(o[1]))]
        key = repr(o)
        if key not in hist:
            hist[key] = [o, 0]
        hist[key][1] += 1
    g = 0
    for _, m in hist.values():
        g = math.gcd(g, m)
    items = sorted(hist.values(), key=lambda x: repr(x[0]))
    stubs = G.decode_run(one)
    return {"hist": [[c, m // max(g, 1)] for c, m in items], "leaves": len(outs),
            "stubs": stubs["stubs"] if isinstance(stubs, dict) else None}


def compare(case, impl_obs, model):
    if "big" in case:
        if G.is_exc(impl_obs):
            return "implementation raised %s on a long valid input" % impl_obs[1]
        want = len(case["specs"])
        if impl_obs["n_shuffles"] != want or impl_obs["left"]:
            return "oracle protocol: %d shuffle calls (%d scripted answers left), expected one per topology = %d" % (
                impl_obs["n_shuffles"], impl_obs["left"], want)
        return None
    if isinstance(model, list):
        if G.is_exc(impl_obs) and G.is_exc(model) and impl_obs[1] == model[1]:
            return None
        return "model %r impl %r" % (model, impl_obs if isinstance(impl_obs, list) else "returned")
    if G.is_exc(impl_obs):
        return "implementation raised %s" % impl_obs[1]
    if impl_obs["protocol"]:
        return "oracle protocol: " + impl_obs["protocol"]
    if impl_obs["shuffled"] != model["stubs"]:
        return "oracle protocol: shuffled lists %r, expected one shuffle per topology on %r" % (
            impl_obs["shuffled"], model["stubs"])
    if impl_obs["leaves"] != model["leaves"]:
        return "oracle tree has %d leaves, sample space has %d schedules" % (impl_obs["leaves"], model["leaves"])
    if impl_obs.get("changed_later"):
        return ("%d of %d results kept from earlier calls on the same generator object changed when later ones were drawn"
                % (impl_obs["changed_later"], impl_obs["leaves"]))
    if impl_obs["hist"] != model["hist"]:
        return "placement histogram differs from the model's"
    return None


def check_calls(case, impl_obs):
    if "big" in case:
        if not isinstance(impl_obs, dict):
            return []
        return [("c03_check_big", [[list(r) for r in big_jds(case)], case["sizes"], case["specs"], impl_obs["shuffles"],
                                   impl_obs["left"], impl_obs["calls"]])]
    if not isinstance(impl_obs, dict):
        return [("c01_check", G.c01_check_tree(case, ["!exc", "x"]))]
    return [("c03_check", G.clamp([case["tag"], case["jds"], case["sizes"], case.get("mis", []),
                                    [[c, m] for c, m in impl_obs["hist"]]]))]


def check_verdict(case, impl_obs, raws):
    v = raws[0] if raws else None
    if "big" in case:
        if G.is_exc(impl_obs):
            if impl_obs[1] == "Forbidden":
                return ("the generator re-seeds the RNG or draws from a private / numpy generator on a long stub list: its "
                        "placements are not a function of the uniform random.shuffle outcomes")
            if impl_obs[1] in ("OracleProtocol", "Timeout"):
                return None
            return "implementation raised %s on a long valid input" % impl_obs[1]
        if v == 1:
            return None
        return ("c03_check_big rejected a run on %d stubs: the shuffle entry point was called %d times on lists of lengths %r "
                "(specification: once per topology on the whole stub list, %d topologies), %d build-callback calls -- the "
                "groups are not the consecutive chunks of ONE uniformly shuffled stub list per topology" % (
                    case["big"]["size"] * case["big"]["n_motifs"], impl_obs["n_shuffles"],
                    [len(x) for x in impl_obs["shuffles"]], len(case["specs"]), impl_obs["n_calls"]))
    if v == 2 or not G.config_total(case):
        return None
    if G.is_exc(impl_obs):
        if impl_obs[1] == "Forbidden":
            return ("the generator re-seeds the RNG or draws from a private / numpy generator: its placements are "
                    "not a function of the uniform random.shuffle outcomes (degenerate or unknown law)")
        if impl_obs[1] in ("OracleProtocol", "TreeTooBig"):
            return None        # protocol mismatch: reported through the correspondence
        return "implementation raised %s on a valid input" % impl_obs[1]
    if v == 1:
        return None
    if case.get("collect") and impl_obs.get("changed_later"):
        return ("c03_check rejected the placement histogram of an ensemble COLLECTED from one generator object (one draw per "
                "RNG outcome, %d draws, every returned object kept and read after the last draw): %d of the kept results no "
                "longer hold what they held when they were returned, the ensemble shows %d distinct outcomes -- not flat / "
                "not complete over the arrangements of the stub lists" % (
                    impl_obs["leaves"], impl_obs["changed_later"], len(impl_obs["hist"])))
    return ("c03_check rejected the placement histogram over all %d RNG outcomes: not flat / not complete over the "
            "arrangements of the stub lists (%d distinct outcomes)" % (impl_obs["leaves"], len(impl_obs["hist"])))


def nontrivial_key(case, impl_obs):
    if "big" in case:
        return [case["tag"], case["big"], case["specs"]] if isinstance(impl_obs, dict) else None
    if isinstance(impl_obs, dict) and len(impl_obs["hist"]) >= 2:
        return [case["tag"], case["jds"], case["sizes"], case.get("mis"), bool(case.get("collect"))]
    return None


def shrink(case):
    if "big" in case:
        return iter(())      # a handful of parameters; below the block length the run says nothing new
    return G.shrink_case(case)


def describe(case, impl_obs):
    if "big" in case:
        d = {"generator": G.TAGNAME[case["tag"]], "via": case.get("via"), "long_run": case["big"], "sizes": case["sizes"],
             "scripted_shuffles_[reverse,rotate]": case["specs"]}
        if isinstance(impl_obs, dict):
            d["shuffle_calls"] = impl_obs["n_shuffles"]
            d["callback_calls"] = impl_obs["n_calls"]
            d["calls_head"] = impl_obs["calls"][:3]
        return d
    d = G.describe_case(case, impl_obs if not isinstance(impl_obs, dict) else ["histogram"])
    if isinstance(impl_obs, dict):
        d["rng_outcomes_enumerated"] = impl_obs["leaves"]
        if case.get("collect"):
            d["ensemble"] = "collected from ONE generator object, tabulated after the last draw"
            d["kept_results_changed_later"] = impl_obs.get("changed_later")
        d["distinct_placements"] = len(impl_obs["hist"])
        d["histogram_head"] = impl_obs["hist"][:4]
    return d


def histogram(cases):
    return G.histo(cases)


def search(rng, tier, seeds):
    batch = []
    for c in generate(rng, "thorough"):
        batch.append(c)
        if len(batch) == 200:
            yield batch
            batch = []
    if batch:
        yield batch
