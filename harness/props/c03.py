"""C03 — stub matching is uniform (configuration-model measure).
Exact oracle-tree enumeration: the REAL generator is run under every resolution of its random calls (every
permutation random.shuffle can return, for every topology) for all small joint degree sequences; the verified
checker c03_check confirms that the histogram of realised placements is flat and complete over the product of all
arrangements of the stub lists; the model side (c03_run) is the Coq sample space `schedules` pushed through the
generator model."""
import itertools
import math
from fractions import Fraction

from harness import oracles
from harness.props import gen_common as G

ID = "C03"
RULE = ("case = (generator type, construction path, jds, sizes, callbacks, motif_indices) with <=4 stubs per topology "
        "and <=2 topologies: all jds with N<=4 (one topology) / N<=3 (two) in quick, N<=4 in thorough; for each case "
        "the whole oracle tree is walked (n! answers per shuffle, every other random entry point is an error or, for "
        "randrange/choice/randint, a uniform branch), so one evaluation = up to 576 runs of the real generator; "
        "compared: multiset of (callback calls) over all leaves vs the model over the Coq sample space, shuffle "
        "protocol on every leaf; the corpus (judged first) holds the four-degree-1-vertices example and 21 inputs with a vertex "
        "of degree >= 2 in a topology (degenerate placements must carry their full weight). NON-DIVISIBLE sequences "
        "(some topology's stub count is not a multiple of its motif size; fast / network generator, all construction paths): "
        "every one with one topology under the same bounds, every 5th / 16th (quick; offset drawn from the seed) or 3rd / 4th "
        "(thorough) with two -- the short last group is handed to the callback, so WHICH stubs are left over must be uniform "
        "as well; six of them in the corpus. Non-trivial = at least two distinct placements; distinct by (type, jds, sizes, indices)")
EXHAUSTIVE = {"quick": True, "thorough": True}
EXPLANATION = ("counting theorems (all stub lists, any length) in Props/C03.v; the histogram checker is proved to DECIDE "
               "'flat and complete' and to accept the model's histogram (also in the form c03_check computes it, from the "
               "callback calls of every run) for every valid input; per case the enumeration over the RNG outcomes is "
               "exhaustive; the family of handshake-consistent jds is exhaustive under the stated bounds, the non-divisible "
               "ones (fast / network only; C03_placement_fast_is_shuffle_any_length) exhaustive for one topology and a "
               "fixed-stride sample for two")
ASSUMPTIONS = ["CPython's random.shuffle is uniform over the n! permutations of its argument and successive calls are "
               "independent (trusted base, DESIGN section 6)"]
TRUSTED = ["oracle-tree walker in harness/props/c03.py (replays a prefix of answers, branches on the first unscripted call)"]
TECHNIQUE = ("Coq counting proofs over the explicit sample space (all permutations per topology, product over "
             "topologies) + exact oracle-tree enumeration of the real generator judged by a verified histogram checker")
LEVEL_TEXT = (
    "General theorems in coq/Props/C03.v: the sample space perms(positions) is complete and duplicate-free "
    "(every assignment of labelled stubs to slots occurs exactly once), every vertex-level arrangement of a stub "
    "list has the same multiplicity in it, the joint space is the product over topologies (independence), and "
    "relabelling vertices permutes the space. The checker c03_check (flat and complete histogram over the "
    "placement space) is proved sound AND complete (C03_checker_iff_spec), and it is proved to accept the model's "
    "own histogram for EVERY joint degree sequence (C03_model_passes_checker; #schedules = #placements * "
    "multiplicity). The map 'callback calls -> placement' that c03_check applies to each observed run is tied to "
    "the shuffles by theorems for all valid configurations and all schedules: for the fast/network generator the "
    "placement read off the calls IS shuffle_all (C03_placement_fast_is_shuffle), for the custom generator it is "
    "the block-reversed shuffle_all (list.pop() order; C03_placement_custom_is_block_reversed_shuffle), an "
    "involutive bijection on arrangements, so the call-level histogram over the whole schedule space passes the "
    "checker for both generators (C03_fast_calls_pass_checker, C03_custom_calls_pass_checker). The real generators "
    "are tied to this by exact enumeration of every shuffle outcome for all small jds (<=4 stubs per topology, "
    "<=2 topologies) and by the shuffle protocol check (exactly one random.shuffle per topology on the full stub "
    "list, no other randomness). The handshake condition is NOT needed for the fast / network generator: "
    "C03_placement_fast_is_shuffle_any_length / C03_fast_calls_pass_checker_any_length prove the same for every "
    "rectangular jds with positive sizes (the short last group is passed on as it is), so c03_check also judges "
    "non-divisible sequences there (hypothesis validb_nohs); for the custom generator (which pops the short partition "
    "first and drops a full one) divisibility stays a hypothesis.")
LEVEL_NOTE = ("Trusted: uniformity and independence of CPython's random.shuffle; Coq kernel; extraction + driver + "
              "harness. The statement is about the law induced by a uniform shuffle, not about the Mersenne Twister.")
IMPL_TIMEOUT = 60.0
BATCH = 150     # core stops after the first batch that holds a concrete violation

MAX_SHUFFLE = 5
MAX_LEAVES = 4000


class TreeTooBig(Exception):
    pass


class Walker:
    """scripted randomness that follows `path` (list of [choice, arity]) and extends it with choice 0"""

    def __init__(self, path):
        self.answers = []
        self.pos = 0
        self.reset(path)

    def reset(self, path):
        self.path = path
        self.depth = 0
        self.log = []          # compatible with oracles.Script.log: ('shuffle', before, perm)

    def branch(self, arity):
        if arity <= 0:
            raise oracles.OracleProtocol("empty choice")
        if self.depth < len(self.path):
            c, a = self.path[self.depth]
            if a != arity:
                raise oracles.OracleProtocol("non-deterministic oracle tree")
        else:
            c = 0
            self.path.append([0, arity])
        self.depth += 1
        return c

    def shuffle(self, x):
        n = len(x)
        if n > MAX_SHUFFLE:
            raise TreeTooBig()
        idx = self.branch(math.factorial(n))
        perm = list(nth_perm(n, idx))
        self.log.append(("shuffle", list(x), perm))
        old = list(x)
        for i, p in enumerate(perm):
            x[i] = old[p]

    def randrange(self, a, b=None):
        if b is None:
            a, b = 0, a
        return a + self.branch(b - a)

    def randint(self, a, b):
        return a + self.branch(b - a + 1)

    def choice(self, seq):
        if len(seq) == 0:
            raise IndexError("Cannot choose from an empty sequence")
        return seq[self.branch(len(seq))]

    def sample(self, population, k):
        pop = list(population)
        if len(pop) > MAX_SHUFFLE:
            raise TreeTooBig()
        opts = list(itertools.permutations(range(len(pop)), k))
        return [pop[i] for i in opts[self.branch(len(opts))]]

    def random(self):
        raise oracles.OracleProtocol("random.random() cannot be enumerated")

    def choices(self, *a, **k):
        raise oracles.OracleProtocol("random.choices() not expected in the generators")


_PERMS = {}


def nth_perm(n, idx):
    if n not in _PERMS:
        _PERMS[n] = list(itertools.permutations(range(n)))
    return _PERMS[n][idx]


def walk(case):
    """all leaves of the oracle tree: list of (observation, Fraction weight)"""
    leaves = []
    path = []
    w = Walker(path)
    with G.strict_scripted(w):
        return _walk(case, w, path, leaves)


def _walk(case, w, path, leaves):
    while True:
        w.reset(path)
        obs = G.run_real(case, w, patched=True)
        if w.depth != len(path):
            raise oracles.OracleProtocol("oracle tree changed shape")
        weight = Fraction(1)
        for _, a in path:
            weight /= a
        leaves.append((obs, weight))
        if len(leaves) > MAX_LEAVES:
            raise TreeTooBig()
        # next path in depth-first order
        while path and path[-1][0] == path[-1][1] - 1:
            path.pop()
        if not path:
            return leaves
        path[-1][0] += 1


def corpus():
    out = []
    # four vertices of degree one: each of the three perfect matchings with probability 1/3
    for tag in (G.FAST, G.MOTIFS, G.NETWORK):
        out.append({"tag": tag, "via": "direct", "jds": [[1], [1], [1], [1]], "sizes": [2], "codes": [G.CLIQUE],
                    "names": [[1]], "mis": [[0]] if tag == G.MOTIFS else []})
    out.append({"tag": G.FAST, "via": "main", "jds": [[1, 1], [1, 2], [2, 0]], "sizes": [2, 3], "codes": [G.CLIQUE, G.CLIQUE],
                "names": [[1], [2]], "mis": []})
    out.append({"tag": G.MOTIFS, "via": "factory", "jds": [[1, 2], [1, 0], [2, 0]], "sizes": [2, 1], "codes": [G.STAR],
                "names": [[1, 2]], "mis": [[0, 1]]})
    # a vertex of degree >= 2 in a topology: some outcomes put two of its stubs into ONE motif (degenerate placement,
    # self-loop).  Those placements carry exactly the configuration-model weight -- a generator that re-draws,
    # repairs or conditionally re-shuffles them is not uniform (C03-r2-3).  Cheap trees, so they are judged first.
    for tag, via in ((G.FAST, "direct"), (G.NETWORK, "main"), (G.MOTIFS, "direct")):
        mis1 = [[0]] if tag == G.MOTIFS else []
        for jds, size in (([[2], [1], [1]], 2), ([[3], [1]], 2), ([[2], [2]], 2), ([[2], [1]], 3), ([[2], [1], [1]], 4),
                          ([[2], [1], [1], [1]], 5)):
            out.append({"tag": tag, "via": via, "jds": jds, "sizes": [size], "codes": [G.CLIQUE], "names": [[1]],
                        "mis": mis1})
        out.append({"tag": tag, "via": via, "jds": [[2, 1], [1, 1], [1, 0]], "sizes": [2, 2], "codes": [G.CLIQUE, G.CLIQUE],
                    "names": [[1], [2]], "mis": [[0], [1]] if tag == G.MOTIFS else []})
    # stub count NOT a multiple of the motif size (fast / network): WHICH stub is left over is uniform as well
    # (C03-r3-2: surplus stubs dropped before the shuffle, the highest-numbered vertices always lose)
    for (tag, via), (jds, size) in zip(ND_TV, (([[1], [1], [1]], 2), ([[1]] * 5, 2), ([[1]] * 4, 3), ([[2], [1], [1], [1]], 2),
                                               ([[1], [1], [1]], 4), ([[1], [2], [1]], 3))):
        out.append({"tag": tag, "via": via, "jds": jds, "sizes": [size], "codes": [G.CLIQUE], "names": [[1]], "mis": [],
                    "nondiv": True})
    return out


ND_TV = [(G.FAST, "direct"), (G.NETWORK, "main"), (G.FAST, "main"), (G.NETWORK, "direct"), (G.FAST, "factory"),
         (G.NETWORK, "factory")]


def family(N_max1, N_max2, maxsum, tags_vias, nondiv=None):
    """handshake-consistent jds: every one, generator types in rotation.  nondiv = (stride, offset): ALSO the jds in
    which some topology's stub count is NOT a multiple of its motif size (fast / network generator only: the short
    last group is handed to the callback, so the calls still carry the whole shuffled stub list and c03_check judges
    them, GenC03P.placement_fast_nohs) -- every one with one topology, every stride-th with two."""
    i = 0
    j = 0
    for T, N_max in ((1, N_max1), (2, N_max2)):
        for N in range(1, N_max + 1):
            cols = [c for c in G.small_columns(N, maxsum, maxsum) if sum(c) > 0]
            for colset in itertools.product(cols, repeat=T):
                sums = [sum(c) for c in colset]
                jds = [[colset[k][v] for k in range(T)] for v in range(N)]
                for sizes in itertools.product((1, 2, 3, 4), repeat=T):
                    if any(s % n for s, n in zip(sums, sizes)):
                        if nondiv is None:
                            continue
                        j += 1
                        if T > 1 and (j + nondiv[1]) % nondiv[0]:
                            continue
                        tag, via = ND_TV[j % len(ND_TV)]
                        yield {"tag": tag, "via": via, "jds": jds, "sizes": list(sizes), "codes": [G.CLIQUE] * T,
                               "names": G.names_for(tag, [G.CLIQUE] * T, list(sizes), [[k] for k in range(T)]),
                               "mis": [], "nondiv": True}
                        continue
                    tag, via = tags_vias[i % len(tags_vias)]
                    i += 1
                    mis = [[k] for k in range(T)]
                    if tag == G.MOTIFS and T == 2 and sums[0] // sizes[0] == sums[1] // sizes[1] and i % 2:
                        mis = [[1, 0]]
                    codes = [G.CLIQUE if sum(sizes[j_] for j_ in idxs) != 2 or tag != G.MOTIFS else G.BARE for idxs in mis]
                    yield {"tag": tag, "via": via, "jds": jds, "sizes": list(sizes), "codes": codes,
                           "names": G.names_for(tag, codes, list(sizes), mis), "mis": mis if tag == G.MOTIFS else []}


def generate(rng, tier):
    tv = [(G.FAST, "direct"), (G.MOTIFS, "direct"), (G.NETWORK, "main"), (G.MOTIFS, "factory"), (G.FAST, "main")]
    if tier == "quick":
        yield from family(4, 2, 4, tv, nondiv=(5, rng.randrange(5)))
        yield from family(0, 3, 3, tv, nondiv=(16, rng.randrange(16)))
    else:
        yield from family(4, 3, 4, tv, nondiv=(3, rng.randrange(3)))
        yield from family(5, 4, 3, tv[1:] + tv[:1], nondiv=(4, rng.randrange(4)))


def impl(case):
    try:
        leaves = walk(case)
    except TreeTooBig:
        return ["!exc", "TreeTooBig"]
    # histogram of outcomes (callback calls), integer multiplicities
    den = 1
    for _, w in leaves:
        den = den * w.denominator // math.gcd(den, w.denominator)
    hist = {}
    proto = None
    n_sh = None
    for obs, w in leaves:
        key = repr(obs["calls"])
        if key not in hist:
            hist[key] = [obs["calls"], 0]
        hist[key][1] += int(w * den)
        sh = [s[0] for s in obs["shuffles"]]
        if n_sh is None:
            n_sh = sh
        elif sh != n_sh and proto is None:
            proto = "shuffled lists differ between leaves: %r vs %r" % (sh, n_sh)
    g = 0
    for _, m in hist.values():
        g = math.gcd(g, m)
    items = sorted(hist.values(), key=lambda x: repr(x[0]))
    return {"hist": [[c, m // max(g, 1)] for c, m in items], "leaves": len(leaves), "shuffled": n_sh or [],
            "protocol": proto, "calls": items[0][0] if items else [], "results": []}


def model_calls(case, impl_obs):
    return [("c03_run", G.model_tree(case, with_pis=False)),
            ("c01_run", G.model_tree(dict(case, pis=[list(range(s)) for s in G.col_sums(case["jds"])])))]


def model_obs(case, raws):
    outs, one = raws
    if isinstance(outs, str):
        return ["!model", outs]
    hist = {}
    for o in outs:
        if G.is_err_tree(o):
            return ["!exc", G.ERR.get(o[1], str(o[1]))]
        key = repr(o)
        if key not in hist:
            hist[key] = [o, 0]
        hist[key][1] += 1
    g = 0
    for _, m in hist.values():
        g = math.gcd(g, m)
    items = sorted(hist.values(), key=lambda x: repr(x[0]))
    stubs = G.decode_run(one)
    return {"hist": [[c, m // max(g, 1)] for c, m in items], "leaves": len(outs),
            "stubs": stubs["stubs"] if isinstance(stubs, dict) else None}


def compare(case, impl_obs, model):
    if isinstance(model, list):
        if G.is_exc(impl_obs) and G.is_exc(model) and impl_obs[1] == model[1]:
            return None
        return "model %r impl %r" % (model, impl_obs if isinstance(impl_obs, list) else "returned")
    if G.is_exc(impl_obs):
        return "implementation raised %s" % impl_obs[1]
    if impl_obs["protocol"]:
        return "oracle protocol: " + impl_obs["protocol"]
    if impl_obs["shuffled"] != model["stubs"]:
        return "oracle protocol: shuffled lists %r, expected one shuffle per topology on %r" % (
            impl_obs["shuffled"], model["stubs"])
    if impl_obs["leaves"] != model["leaves"]:
        return "oracle tree has %d leaves, sample space has %d schedules" % (impl_obs["leaves"], model["leaves"])
    if impl_obs["hist"] != model["hist"]:
        return "placement histogram differs from the model's"
    return None


def check_calls(case, impl_obs):
    if not isinstance(impl_obs, dict):
        return [("c01_check", G.c01_check_tree(case, ["!exc", "x"]))]
    return [("c03_check", G.clamp([case["tag"], case["jds"], case["sizes"], case.get("mis", []),
                                    [[c, m] for c, m in impl_obs["hist"]]]))]


def check_verdict(case, impl_obs, raws):
    v = raws[0] if raws else None
    if v == 2 or not G.config_total(case):
        return None
    if G.is_exc(impl_obs):
        if impl_obs[1] == "Forbidden":
            return ("the generator re-seeds the RNG or draws from a private / numpy generator: its placements are "
                    "not a function of the uniform random.shuffle outcomes (degenerate or unknown law)")
        if impl_obs[1] in ("OracleProtocol", "TreeTooBig"):
            return None        # protocol mismatch: reported through the correspondence
        return "implementation raised %s on a valid input" % impl_obs[1]
    if v == 1:
        return None
    return ("c03_check rejected the placement histogram over all %d RNG outcomes: not flat / not complete over the "
            "arrangements of the stub lists (%d distinct outcomes)" % (impl_obs["leaves"], len(impl_obs["hist"])))


def nontrivial_key(case, impl_obs):
    if isinstance(impl_obs, dict) and len(impl_obs["hist"]) >= 2:
        return [case["tag"], case["jds"], case["sizes"], case.get("mis")]
    return None


def shrink(case):
    return G.shrink_case(case)


def describe(case, impl_obs):
    d = G.describe_case(case, impl_obs if not isinstance(impl_obs, dict) else ["histogram"])
    if isinstance(impl_obs, dict):
        d["rng_outcomes_enumerated"] = impl_obs["leaves"]
        d["distinct_placements"] = len(impl_obs["hist"])
        d["histogram_head"] = impl_obs["hist"][:4]
    return d


def histogram(cases):
    return G.histo(cases)


def search(rng, tier, seeds):
    batch = []
    for c in generate(rng, "thorough"):
        batch.append(c)
        if len(batch) == 200:
            yield batch
            batch = []
    if batch:
        yield batch
