"""C01 — generated graphs realise exactly the joint degree sequence.
Real generators of /repo (fast, network, custom motifs; direct / factory / load_gcm_algorithm) under scripted
shuffles and logging build callbacks vs Model/Gen.v; the verified checker c01_check judges the observed calls."""
from harness.props import gen_common as G

ID = "C01"
RULE = ("case = (generator type, construction path, jds, motif sizes, build callbacks, motif_indices, one permutation "
        "per shuffle); exhaustive small family, ALL permutations: one topology N<=3 (quick) / N<=4 (thorough), entries "
        "<=2, column sums <=4; two topologies N<=2 with sums <=3 (quick) / <=4 (thorough) and N<=3 with entries <=1, "
        "sums <=3; sizes in {1,2,3}; seeded random: N<=12, <=4 topologies, sizes<=5, built-in and "
        "synthetic callbacks (results as tuple / list / list of lists; fast and custom generators: the bare edge also as a list [u, v]), multi-orbit custom motifs; malformed stream (non-divisible sums, missing sizes/builders, "
        "zero size, unequal orbit counts) where model and code must raise the same exception class; a share of the random "
        "cases are HISTORIES: 2-3 generations on the same algorithm object and the same jds list object (contents "
        "replaced in place, the previously returned object damaged in between, identical repeats), every call judged "
        "against the model on the current contents; in 40% of the histories the caller KEEPS every returned object untouched instead and reads it again after the last call (c02_check once more on the rows it shows then, against the callback results of the call that returned it: results of successive calls must not alias each other); inputs and configuration are deep-compared before/after; a REPEATED-TUPLE "
        "stream (and four corpus entries): as many vertices as the motif size, equal degrees, shuffle answers dealing the "
        "same ordered vertex tuple to every group of one topology, of several topologies with different library builders "
        "(diamond + 4-cycle on the same four vertices) and of 2-3 generations on one object. Judged by three verified "
        "checkers per generation: c01_check (calls), c01_check_results (every callback result is the builder's "
        "specification applied to the arguments it got), c02_check on the EMITTED rows (edge list: the three columns; "
        "network: rows read back from the graph for every vertex pair produced exactly once). Compared: sequence "
        "of (callback, argument list) calls, the three columns (network variant: the graph, exactly, against the composed "
        "model gen_network), joint_degrees, shuffle protocol. "
        "Non-trivial = a valid case with at least two callback calls; distinct by (type, jds, sizes, indices, pis)")
EXHAUSTIVE = {"quick": True, "thorough": True}
STATEFUL_IMPL = True     # core: a replay file is kept only if a FRESH process rejects it too (builders with memory)
EXPLANATION = ("general theorems (all jds, sizes, callbacks, permutations) in Props/C01.v, incl. the network variant as "
               "the Coq composition of the generator model with the conversion model (C01_network_variant); the correspondence is "
               "exhaustive over the small family named in the rule (all permutations) and seeded-random beyond")
ASSUMPTIONS = ["random.shuffle(l) is the only randomness the generators use (enforced: every other random/numpy.random "
               "entry point raises during a run)",
               "iteration_utilities.grouper / itertools chain,starmap,repeat behave as modelled (results compared on every case)",
               "int(float(len)/size) == len // size for the list lengths in play (< 2**26)"]
TRUSTED = ["build callbacks are observed through a logging wrapper (argument list and result of every call)",
           "network variant: the rows handed to c02_check are read back from the networkx graph in callback order; a vertex "
           "pair the callbacks produced more than once is left out of results and rows alike (networkx keeps one "
           "attribute set per pair; which one is compared with the composed model, not judged by the checker)"]
PARTIAL = ['"the joint degree sequence is carried through unchanged" and "factory / main construction = direct construction" hold by construction of the model (definitional theorems); on the code they are established by the correspondence (both construction paths, deep before/after comparison)']
TECHNIQUE = ("Coq proof (list induction / permutation and counting lemmas over an executable model, all shuffles "
             "quantified) + model/implementation correspondence with scripted shuffles + verified checker on the "
             "implementation's logged callback calls")
LEVEL_TEXT = (
    "General theorems in coq/Props/C01.v for every joint degree sequence, every size vector, every motif-index "
    "configuration, every build callback and every permutation the shuffles may return: under the handshake "
    "hypothesis the fast/network and custom-motif models make exactly sum_v jds[v][k]/size_k callback calls per "
    "topology, each on size_k stubs (custom: one partition per orbit), every vertex v occupies exactly jds[v][k] "
    "slots of topology k, no vertex outside 0..N-1 occurs, joint_degrees is carried unchanged, and the factory / "
    "load_gcm_algorithm dispatch equals direct construction. Network variant as a COMPOSITION (Model/GenNet.v: "
    "gen_network = Conv.to_network applied to the fast generator's edge list, as in gcm_algorithm_network.py; "
    "C01_network_variant, general, same hypotheses): the returned network has exactly the vertices 0..N-1, each "
    "annotated with jds[v]; its edge set is the set of callback edges (unordered pairs, each once); a pair produced "
    "once carries its row's name and id; when no unordered pair is produced twice the network has one edge per row "
    "and every edge of motif instance d of topology j carries (name_j, id d); C01_network_converts_back: "
    "NetworkToEdgeList on the generated network always succeeds and returns jds and one row per generated pair "
    "(the generated list itself when no pair repeats); C01_network_errors / _total: it fails exactly as the fast "
    "generator does. The checker c01_check is proved equivalent to the "
    "Prop-level specification and is run on the real generators' logged callback calls (plus the proved-equivalent closedness test: every motif's edges use only its own stubs). "
    "The EMITTED motif instances are judged as well: c01_check_results (results_okb, proved equivalent to the relation "
    "Results of the generator theorems: every logged callback result equals builder_of_code applied to the logged "
    "arguments; C01_results_checker_iff, closed forms of clique / cycle / diamond in C01_*_builder_spec) and the C02 row "
    "checker c02_check (proved sound and complete for the block specification in Props/C02.v) on the emitted columns resp. "
    "on the rows read back from the generated network for every pair produced once (the clause 'a pair produced once "
    "carries its row's name and id' of C01_network_variant). The model is tied to "
    "/repo by exact comparison under scripted shuffles (exhaustive small family, all permutations, all three "
    "types, all three construction paths).")
LEVEL_NOTE = ("The network theorems speak about gen_network (Gallina composition), which is also extracted (entry "
              "c01_net_run): for every network-variant case the real networkx graph is compared EXACTLY with the composed "
              "model's network - node ids, node annotations, edge set and the (name, id) on every edge, for repeated pairs "
              "the one the modelled dict order leaves (before: only 'one of the rows of the pair'). Trusted: Coq kernel; extraction + OCaml driver + Python harness for the correspondence; "
              "iteration_utilities.grouper modelled, not verified. Print Assumptions: closed under the global context.")


def corpus():
    return G.common_corpus()


def generate(rng, tier):
    quick = tier == "quick"
    # exhaustive small family, all permutations
    if quick:
        yield from G.exhaustive_cases(3, 1, 2, 4, (G.FAST, G.MOTIFS), vias=("direct",))
        yield from G.exhaustive_cases(2, 2, 2, 3, (G.FAST, G.MOTIFS, G.NETWORK), vias=("factory",), sizes_opts=(1, 2, 3))
        yield from G.exhaustive_cases(3, 2, 1, 3, (G.FAST, G.MOTIFS), vias=("main",), sizes_opts=(1, 3),
                                      code_opts=[G.CYCLE, G.STAR, G.CLIQUE, G.PATH2])
    else:
        yield from G.exhaustive_cases(4, 1, 2, 4, (G.FAST, G.MOTIFS, G.NETWORK), vias=("direct", "main"))
        yield from G.exhaustive_cases(2, 2, 2, 4, (G.FAST, G.MOTIFS), vias=("factory",), sizes_opts=(1, 2, 3))
        yield from G.exhaustive_cases(3, 2, 1, 3, (G.FAST, G.MOTIFS, G.NETWORK), vias=("main",), sizes_opts=(1, 2, 3),
                                      code_opts=[G.CYCLE, G.STAR, G.CLIQUE, G.PATH2])
    n = 500 if quick else 6000
    for i in range(n):
        yield G.random_valid_case(rng, [G.FAST, G.MOTIFS, G.NETWORK, G.MOTIFS][i % 4])
    # histories: several generations on ONE algorithm object and ONE jds list (stale state, caches, aliasing)
    for i in range(n // 2):
        yield G.history_case(rng, [G.FAST, G.MOTIFS, G.NETWORK, G.MOTIFS][i % 4])
    # the library builders called repeatedly with equal ordered vertex tuples (within a topology, across topologies,
    # across generations on one object)
    for i in range(n // 5):
        yield G.repeat_tuple_case(rng, [G.FAST, G.MOTIFS, G.NETWORK, G.MOTIFS][i % 4])
    # sizes / degrees / counts beyond the usual range (motif sizes 9..17, degrees up to 20, N up to 60)
    for i in range(n // 5):
        yield G.big_case(rng, [G.FAST, G.MOTIFS, G.NETWORK, G.MOTIFS][i % 4])
    for i in range(n // 3):
        yield G.malformed_case(rng, [G.FAST, G.MOTIFS, G.NETWORK, G.MOTIFS][i % 4])


def impl(case):
    return G.impl_case(case)


def _net_steps(case):
    """indices of the steps run by the network variant (all or none: the tag is per case)"""
    steps = G.steps_of(case)
    return [i for i, st in enumerate(steps) if st["tag"] == G.NETWORK]


def model_calls(case, impl_obs):
    # network variant: besides the fast model's columns (c01_run) the COMPOSED model gen_network = Conv.to_network on
    # the fast generator's list (Model/GenNet.v, entry c01_net_run) is run; the real graph is compared with it exactly
    steps = G.steps_of(case)
    return G.model_calls_case("c01_run", case) + [("c01_net_run", G.model_tree(steps[i])) for i in _net_steps(case)]


def _dec_net(raw):
    if isinstance(raw, str):
        return ["!model", raw]
    if G.is_err_tree(raw):
        return ["!exc", G.ERR.get(raw[1], "code%d" % raw[1])]
    calls, (nodes, edges) = raw
    nodes = sorted(nodes)
    return {"calls": calls, "nodes": [v for v, _ in nodes], "jds_out": [jd[0] if jd else -1 for _, jd in nodes],
            "net_edges": sorted([e[0], e[1]] + (list(a) if a else [-1, -1]) for e, a in edges)}


def model_obs(case, raws):
    n = len(G.steps_of(case))
    m = G.model_obs_case(raws[:n])
    for i, raw in zip(_net_steps(case), raws[n:]):
        if isinstance(m[i], dict):
            m[i] = dict(m[i], net=_dec_net(raw))
    return m


def _compare_net(impl, model):
    """the real networkx graph vs the composed model: node ids, node annotations, edge set, and on EVERY edge exactly
    the (name, id) the model's conversion leaves there (for a repeated pair: the modelled dict order decides)"""
    net = model.get("net")
    if net is None:
        return None
    if not isinstance(net, dict):
        return "composed network model: %r although the fast model returned" % (net,)
    if net["calls"] != model["calls"]:
        return "composed network model made other callback calls than the fast model"
    for f in ("nodes", "jds_out", "net_edges"):
        if impl[f] != net[f]:
            return "graph %s: impl %r composed model %r" % (f, impl[f], net[f])
    return None


def compare(case, impl_obs, model):
    d = G.compare_case(case, impl_obs, model)
    if d or G.is_exc(impl_obs):
        return d
    steps = G.steps_of(case)
    for i in _net_steps(case):
        if isinstance(model[i], dict) and isinstance(impl_obs["steps"][i], dict) and "net_edges" in impl_obs["steps"][i]:
            d = _compare_net(impl_obs["steps"][i], model[i])
            if d:
                return d if len(steps) == 1 else "step %d of %d on the same object: %s" % (i, len(steps), d)
    return None


VACUOUS_ROWS = [0, [], [], [], [], []]      # c02_check answers 1 on it
VACUOUS_RESULTS = [[], [], []]               # c01_check_results answers 1 on it


def check_calls(case, impl_obs):
    """three verified checkers per step: c01_check on the logged callback calls (counts / group sizes / stub slots /
    joint_degrees / vertex range / closedness), c01_check_results on the callbacks' results (each IS the builder's
    specification applied to the arguments it got), c02_check on the EMITTED rows (edge list: the three columns;
    network: the rows read back from the graph for every pair produced once) against the logged results"""
    steps = G.steps_of(case)
    if not isinstance(impl_obs, dict):
        return [("c01_check", G.c01_check_tree(st, ["!exc", "x"])) for st in steps]
    calls = []
    for st, o in zip(steps, impl_obs["steps"]):
        calls.append(("c01_check", G.c01_check_tree(st, o)))
        t = G.results_check_tree(st, o)
        calls.append(("c01_check_results", t if t is not None else VACUOUS_RESULTS))
        t = G.c02_check_tree(st, o)
        calls.append(("c02_check", t if t is not None else VACUOUS_ROWS))
    return calls + G.later_check_calls(case, impl_obs, VACUOUS_ROWS)


def st_code(case, j):
    return case["codes"][j] if 0 <= j < len(case["codes"]) else G.NONE


def check_verdict(case, impl_obs, raws):
    steps = G.steps_of(case)
    if G.is_exc(impl_obs):
        # hypotheses of C01 met by every step and callbacks total: the call must return
        if raws and all(v != 2 for v in raws) and G.config_total(case):
            return "implementation raised %s on a handshake-consistent input" % impl_obs[1]
        return None
    total = G.config_total(case)
    for i in range(len(steps)):
        v, v_res, v_rows = raws[3 * i:3 * i + 3]
        where = "" if len(steps) == 1 else " (call %d of %d on the same algorithm object)" % (i + 1, len(steps))
        if v_res != 1:
            o = impl_obs["steps"][i]
            hint = ""
            for k, ((j, args), (_, sh)) in enumerate(zip(o["calls"], o["results"])):
                want = G.n_edges(st_code(case, j), len(args))
                got = len(sh[1]) if sh and sh[0] == 0 else 1
                if isinstance(want, int) and want != got and st_code(case, j) != G.CLIQUENL:
                    hint = " (call %d: %s on %r returned %d edges)" % (k, G.BUILDER_NAMES[st_code(case, j)], args, got)
                    break
            return ("c01_check_results rejected the callbacks' results%s: a motif instance is not what its build callback "
                    "specifies for the stubs it was given%s" % (where, hint))
        if v == 2:
            continue       # hypotheses of C01 not met: nothing claimed (the correspondence still applies)
        if v != 1:
            return ("c01_check rejected the observed run%s: motif counts / group sizes / stub slots / "
                    "joint_degrees / vertex range" % where)
        if total and v_rows != 1:
            what = ("the rows read back from the graph (pairs produced once)" if case["tag"] == G.NETWORK
                    else "the emitted columns (lengths %d/%d/%d)" % tuple(len(impl_obs["steps"][i].get(f, []))
                                                                         for f in ("edges", "names", "ids")))
            return ("c02_check rejected %s%s: the emitted rows are not, block by block, the edges the build callbacks "
                    "returned for the drawn stubs with their topology's name and one private id per instance" % (what, where))
    valid = [bool(total) and raws[3 * i] == 1 and raws[3 * i + 1] == 1 for i in range(len(steps))]
    return G.later_verdict(case, impl_obs, raws[3 * len(steps):], valid)


def nontrivial_key(case, impl_obs):
    if isinstance(impl_obs, dict) and "kind" not in case and sum(len(o["calls"]) for o in impl_obs["steps"]) >= 2:
        return [case["tag"], case.get("jds"), case["sizes"], case.get("mis"), case.get("pis"), case.get("steps")]
    return None


def shrink(case):
    return G.shrink_case(case)


def describe(case, impl_obs):
    return G.describe_case(case, impl_obs)


def histogram(cases):
    return G.histo(cases)


def search(rng, tier, seeds):
    batch = []
    for c in generate(rng, "thorough"):
        batch.append(c)
        if len(batch) == 400:
            yield batch
            batch = []
    if batch:
        yield batch
