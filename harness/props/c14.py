"""C14 — degree-distribution algebra (forward excess distributions, inversion, row sums of mixing
matrices, empirical jdd of a network, mean) vs Model/Algebra.v."""
import random as _random
from fractions import Fraction

from harness import core
from harness.props import c13

ID = "C14"
RULE = ("four case kinds: 'jdd' = random joint degree distributions over 1-4 topologies (dyadic probabilities, zero "
        "components, unequal supports, the all-zero key, zero-probability keys, no common key, arbitrary topology "
        "name strings) pushed through mean, forward and forward-then-invert; 'qks' = arbitrary (inconsistent) excess "
        "distributions with permuted / missing / empty name lists through invert_single and the inversion; 'rows' = "
        "random mixing matrices through the key-splitting routine and the row sums (also with explicitly supplied key "
        "lists of wrong size / missing name); 'net' = clean and unclean annotated networks (hand-made with 2-clique "
        "and triangle motifs, and from gcmpy's own generator) through extractor -> row sums and network -> jdd -> "
        "forward. non-trivial = a case on which the routine returned a result with >= 2 keys; distinct by input")
EXHAUSTIVE = {"quick": False, "thorough": False}
EXPLANATION = ("general theorems (all distributions / matrices / clean networks) in Props/C14.v; correspondence on "
               "seeded random inputs of every kind; the inversion's arbitrary common key is a schedule: the model "
               "reports the result for EVERY common key and the implementation must agree with one of them; the "
               "verified checker c14_check judges the implementation's outputs against the closed forms "
               "(tolerance 1e-9)")
ASSUMPTIONS = ["probabilities are dyadic rationals, so the float the implementation receives IS the rational the model "
               "receives", "float results are compared with exact rationals within 1e-9",
               "CPython set/dict iteration order only selects which common key is used (covered by the schedule)"]
TRUSTED = ["float -> exact Fraction conversion of the implementation's outputs before c14_check"]
PARTIAL = ['C14_inverse needs every probability strictly positive on its keys and a joint degree positive in every topology (inv_hyp) - the hypothesis the property sentence states as "whenever some joint degree is positive in every topology"']
TECHNIQUE = "Coq proof (finite sums over Q, handshake double counting) + model/implementation correspondence"
LEVEL_TEXT = (
    "General theorems in coq/Props/C14.v (no size bound): q_i(k - e_i) = k_i P(k)/<k_i>, its key set, sum q_i = 1; "
    "C14_inverse: forward-then-invert returns P(k)/sum_{k'<>0}P(k') on exactly the non-zero keys for EVERY choice "
    "of the common key and every list of distinct names; row sums of a matrix over its key halves (and equality "
    "with the full row sum under the coverage condition); empirical jdd of a network; mean = P-weighted mean; for a "
    "clean annotated network the row sum of the C13 matrix has the closed form (a_i+1)#{v: jd v = a+e_i}/sum_v jd_v[i] "
    "and equals the excess distribution of the empirical jdd pointwise (handshake double counting). The dict-level "
    "network statement C14_network_full is now PROVED in general (C14_network_full_proved): for every clean "
    "annotated network with distinct names, excess_from_ejk(get_ejks g, excess keys) and forward(jdd_from_network g) "
    "both succeed and return, for every topology, exactly the closed-form dict on exactly the excess keys "
    "(coverage argument: under cleanness every end of a t-edge has jd[i] > 0; plumbing over the name list); hence "
    "c14_check mode 4 is proved to accept the model's output for all such networks "
    "(C14_model_passes_network_checker). C14_network_partial (the pointwise identity) is kept. All seven "
    "checkers are proved equivalent to the Prop-level specifications and run on the implementation's outputs.")
LEVEL_NOTE = ("Trusted: Coq kernel; extraction + OCaml driver + Python harness; float outputs judged with tolerance "
              "1e-9. Duplicate topology names are outside the theorems (distinct names are a hypothesis). No axioms.")

EPS = [1, 10 ** 9]
NAMES = c13.NAMES + ["3-clique-red", "", "k", "2-clique-green"]
ERR = {1: "IndexError", 2: "ZeroDivisionError", 3: "TypeError", 4: "KeyError"}


def _fr(x):
    f = Fraction(x)
    return [f.numerator, f.denominator]


def _dobs(d):
    return sorted([[list(k), _fr(v)] for k, v in d.items()])


def _norm(rows):
    return sorted([[list(k), _fr(Fraction(p[0], p[1]))] for k, p in rows])


def _guard(f):
    try:
        return f()
    except BaseException as e:  # noqa: BLE001
        if isinstance(e, (KeyboardInterrupt, SystemExit, core.ImplTimeout)):
            raise
        return ["!exc", type(e).__name__]


# ------------------------------------------------------------------ generators
def _rand_keys(rng, T, n, hi=3, zero_bias=0.4):
    ks = set()
    tries = 0
    while len(ks) < n and tries < 100:
        tries += 1
        ks.add(tuple(0 if rng.random() < zero_bias else rng.randint(1, hi) for _ in range(T)))
    ks = list(ks)
    rng.shuffle(ks)
    return ks


def _rand_probs(rng, n, normalised=True):
    den = 2 ** rng.choice([4, 6, 10])
    if n > den:
        den = 1024
    if normalised:
        cuts = sorted(rng.sample(range(1, den), n - 1)) if n > 1 else []
        ws = [b - a for a, b in zip([0] + cuts, cuts + [den])]
    else:
        ws = [rng.randint(1, den) for _ in range(n)]
    return [[w, den] for w in ws]


def _gen_jdd(rng):
    T = rng.choice([1, 2, 2, 3, 3, 4])
    n = rng.randint(1, 7)
    mode = rng.choice(["good", "good", "good", "good", "zero-prob", "no-common", "unnorm", "zero-key"])
    ks = _rand_keys(rng, T, n, zero_bias=0.15 if mode == "good" else 0.4)
    if mode in ("good", "unnorm", "zero-key") and not any(all(x > 0 for x in k) for k in ks):
        ks.append(tuple(rng.randint(1, 3) for _ in range(T)))
    if mode == "zero-key" and tuple([0] * T) not in ks:
        ks.append(tuple([0] * T))
    if mode == "no-common":
        ks = [k for k in ks if not all(x > 0 for x in k)] or [tuple([0] * T)]
    ps = _rand_probs(rng, len(ks), normalised=(mode != "unnorm"))
    if mode == "zero-prob":
        ps[rng.randrange(len(ps))] = [0, 1]
    names = rng.sample(NAMES, T)
    return {"kind": "jdd", "names": names, "P": [[list(k), p] for k, p in zip(ks, ps)]}


def _gen_qks(rng):
    T = rng.choice([1, 2, 2, 3])
    names = rng.sample(NAMES, T)
    qks = []
    base = _rand_keys(rng, T, rng.randint(1, 4), zero_bias=0.1)   # joint degrees shared by all observations
    for i in range(T):
        ks = set(tuple(x - (1 if j == i else 0) for j, x in enumerate(k)) for k in base if k[i] > 0)
        for k in _rand_keys(rng, T, rng.randint(0, 3)):
            ks.add(k)
        ks = sorted(ks)
        rng.shuffle(ks)
        vals = _rand_probs(rng, len(ks), normalised=False) if ks else []
        if ks and rng.random() < 0.1:
            vals[rng.randrange(len(vals))] = [0, 1]
        qks.append([[list(k), v] for k, v in zip(ks, vals)])
    order = list(range(T))
    r = rng.random()
    if r < 0.3:
        rng.shuffle(order)
    elif r < 0.4:
        order = order[:-1] if T > 1 else []
    elif r < 0.45:
        order = order + [T]            # a name the dict does not contain -> KeyError
    return {"kind": "qks", "names": names + ["missing"], "qks": qks, "order": order, "single": rng.randrange(T)}


def _gen_rows(rng):
    T = rng.choice([1, 1, 2, 3])
    nt = rng.choice([1, 2, 3])
    names = rng.sample(NAMES, nt)
    ejks = []
    for _ in range(nt):
        halves = _rand_keys(rng, T, rng.randint(1, 4))
        keys = set()
        for _ in range(rng.randint(0, 8)):
            a, b = rng.choice(halves), rng.choice(halves)
            keys.add(a + b)
            if rng.random() < 0.6:
                keys.add(b + a)
        if rng.random() < 0.08:
            keys.add(tuple(rng.randint(0, 2) for _ in range(2 * T + 1)))    # odd length key
        keys = sorted(keys)
        rng.shuffle(keys)
        vals = _rand_probs(rng, len(keys), normalised=(len(keys) > 0 and rng.random() < 0.5)) if keys else []
        ejks.append([[list(k), v] for k, v in zip(keys, vals)])
    xk = None
    r = rng.random()
    if r < 0.25:
        # explicitly supplied key lists (the setter): a subset / superset of the halves, maybe a name missing
        xk = []
        for j in range(nt):
            ks = _rand_keys(rng, T, rng.randint(0, 4))
            xk.append([j, [list(k) for k in ks]])
        if r < 0.05 and nt > 1:
            xk.pop()
        elif r < 0.1:
            xk[-1][0] = nt   # other name
    return {"kind": "rows", "names": names + ["other"], "ejks": ejks, "xkeys": xk, "reuse": rng.random() < 0.4}


def _gen_net(rng, tier):
    r = rng.random()
    if r < 0.3:
        return _gen_net_real(rng, tier)
    c = c13._rand_net(rng, big=(tier != "quick" and r > 0.9))
    return {"kind": "net", "names": c["names"], "jds": c["jds"], "edges": c["edges"]}


def _gen_net_real(rng, tier):
    """a network from gcmpy's own generator (2-cliques and triangles)"""
    nt = rng.choice([1, 2])
    sizes = [2, 3][:nt] if rng.random() < 0.7 else [3, 2][:nt]
    ks = _rand_keys(rng, nt, rng.randint(1, 3), hi=2, zero_bias=0.2)
    ks = [k for k in ks if any(k)] or [tuple([1] * nt)]
    N = rng.randint(4, 12 if tier == "quick" else 24)
    return {"kind": "net", "real": {"sizes": sizes, "keys": [list(k) for k in ks], "N": N,
                                     "seed": rng.randrange(10 ** 9)},
            "names": ["%d-clique" % s for s in sizes]}


def corpus():
    cs = []
    # DESIGN section 3 replay: names other than the hard-coded '2-clique'
    cs.append({"kind": "jdd", "names": ["a", "b"],
               "P": [[[1, 1], [1, 4]], [[2, 1], [1, 4]], [[0, 2], [1, 4]], [[3, 0], [1, 4]]]})
    cs.append({"kind": "qks", "names": ["a", "b", "missing"], "order": [0, 1], "single": 0,
               "qks": [[[[0, 1], [1, 2]], [[1, 1], [1, 2]]], [[[1, 0], [1, 4]], [[2, 0], [3, 4]]]]})
    cs.append({"kind": "jdd", "names": ["2-clique", "3-clique"],
               "P": [[[5, 1], [1, 4]], [[3, 2], [1, 2]], [[1, 3], [1, 4]]]})
    cs.append({"kind": "jdd", "names": ["x"], "P": [[[0], [1, 2]], [[2], [1, 2]]]})
    cs.append({"kind": "jdd", "names": ["x"], "P": []})
    cs.append({"kind": "rows", "names": ["2-clique", "other"], "xkeys": None, "reuse": True,
               "ejks": [[[[0, 0], [1, 2]], [[1, 1], [1, 2]]]]})
    cs.append({"kind": "rows", "names": ["2-clique", "other"], "xkeys": None,
               "ejks": [[[[0, 1], [1, 4]], [[1, 0], [1, 4]], [[1, 1], [1, 2]]]]})
    cs.append({"kind": "net", "names": ["2-clique", "3-clique"],
               "jds": [[1, 1], [1, 1], [0, 1], [1, 0], [1, 0]],
               "edges": [[0, 1, 1], [1, 2, 1], [0, 2, 1], [0, 3, 0], [1, 4, 0]]})
    return cs


def generate(rng, tier):
    n = 160 if tier == "quick" else 2500
    for _ in range(n):
        yield _gen_jdd(rng)
        yield _gen_qks(rng)
        yield _gen_rows(rng)
        yield _gen_net(rng, tier)
        yield _gen_jdd(rng)


# ------------------------------------------------------------------ implementation
def _pdict(rows):
    return {tuple(k): float(Fraction(p[0], p[1])) for k, p in rows}


def _materialise_net(case):
    """fills jds / edges of a 'real' network case by running gcmpy's generator (seeded)"""
    if "jds" in case:
        return case
    from gcmpy.gcm_algorithm.gcm_algorithm_network import GCMAlgorithmNetwork
    from gcmpy.joint_degree.joint_degree_loaders.joint_degree_manual import JointDegreeManual
    from gcmpy.motif_generators.clique_motif import clique_motif
    from gcmpy.names.gcm_algorithm_names import GCMAlgorithmNames
    from gcmpy.names.joint_degree_names import JointDegreeNames
    from gcmpy.names.network_names import NetworkNames
    rl = case["real"]
    st = _random.getstate()
    try:
        _random.seed(rl["seed"])
        keys = [tuple(k) for k in rl["keys"]]
        jdd = {k: 1.0 / len(keys) for k in keys}
        D = JointDegreeManual({JointDegreeNames.JDD: jdd, JointDegreeNames.MOTIF_SIZES: list(rl["sizes"])})
        jds = D.sample_jds_from_jdd(rl["N"])
        g = GCMAlgorithmNetwork({GCMAlgorithmNames.MOTIF_SIZES: list(rl["sizes"]),
                                 GCMAlgorithmNames.EDGE_NAMES: list(case["names"]),
                                 GCMAlgorithmNames.BUILD_FUNCTIONS: [clique_motif] * len(rl["sizes"])}
                                ).random_clustered_graph(jds)
    finally:
        _random.setstate(st)
    G = g._G
    nodes = sorted(G.nodes())
    idx = {v: i for i, v in enumerate(nodes)}
    out = dict(case)
    out["jds"] = [list(G.nodes[v][NetworkNames.JOINT_DEGREE]) for v in nodes]
    out["edges"] = [[idx[u], idx[v], case["names"].index(G.edges[u, v][NetworkNames.TOPOLOGY])]
                    for u, v in G.edges()]
    return out


def impl(case):
    kind = case["kind"]
    if kind == "jdd":
        from gcmpy.tools.average_joint_degree_from_jdd import AverageJointDegreeFromJDD
        from gcmpy.tools.joint_degree_from_excess import JointDegreeFromExcess
        from gcmpy.tools.joint_excess_from_jdd import JointExcessfromJDD
        P = _pdict(case["P"])
        names = case["names"]
        mean = _guard(lambda: [_fr(x) for x in AverageJointDegreeFromJDD.get_average_joint_degrees(dict(P))])
        fwd = _guard(lambda: [_dobs(q) for q in JointExcessfromJDD.get_joint_excess_distributions(dict(P))])

        def rt():
            qs = JointExcessfromJDD.get_joint_excess_distributions(dict(P))
            qd = JointExcessfromJDD.convert_list_qks_to_dict(qs, list(names))
            back = JointExcessfromJDD.convert_dict_qks_to_list(qd, list(names))
            if [_dobs(a) for a in back] != [_dobs(a) for a in qs]:
                return ["!exc", "ConversionMismatch"]
            if (len(case["P"]) + len(names)) % 2 == 1:
                # a dict keyed by topology name: its INSERTION ORDER is not part of the interface
                qd = {k: qd[k] for k in reversed(list(qd))}
            shared["qd"] = qd
            return _dobs(JointDegreeFromExcess.get_joint_degree_distribution(qd, list(names)))
        shared = {}
        inv = _guard(rt)
        out = {"mean": mean, "fwd": fwd, "inv": inv, "P_after": _dobs(P)}
        # history: the caller keeps its objects and asks again -- the SAME excess dictionaries inverted a second
        # time, the SAME P dictionary pushed forward / averaged again (a callee that works in place on its
        # argument answers the first call correctly and the second one wrongly)
        if "qd" in shared and not core.is_exc(inv):
            out["inv2"] = _guard(lambda: _dobs(JointDegreeFromExcess.get_joint_degree_distribution(shared["qd"], list(names))))
        P2 = dict(P)
        _guard(lambda: JointExcessfromJDD.get_joint_excess_distributions(P2))
        _guard(lambda: AverageJointDegreeFromJDD.get_average_joint_degrees(P2))
        out["fwd2"] = _guard(lambda: [_dobs(q) for q in JointExcessfromJDD.get_joint_excess_distributions(P2)])
        out["mean2"] = _guard(lambda: [_fr(x) for x in AverageJointDegreeFromJDD.get_average_joint_degrees(P2)])
        return out
    if kind == "qks":
        from gcmpy.tools.joint_degree_from_excess import JointDegreeFromExcess
        names = case["names"]
        qd = {names[i]: _pdict(q) for i, q in enumerate(case["qks"])}
        if (len(case["qks"]) + case["single"]) % 2 == 1:
            qd = {k: qd[k] for k in reversed(list(qd))}
        order = [names[i] for i in case["order"]]
        s = case["single"]
        single = _guard(lambda: _dobs(JointDegreeFromExcess.invert_single(dict(qd[names[s]]), s)))
        inv = _guard(lambda: _dobs(JointDegreeFromExcess.get_joint_degree_distribution(qd, order)))
        after = [_dobs(qd[names[i]]) for i in range(len(case["qks"]))]
        inv2 = _guard(lambda: _dobs(JointDegreeFromExcess.get_joint_degree_distribution(qd, order)))
        return {"single": single, "inv": inv, "inv2": inv2, "qks_after": after}
    if kind == "rows":
        from gcmpy.names.tools_names import ToolsNames
        from gcmpy.tools.joint_excess_from_ejk import JointExcessFromEjk
        from gcmpy.tools.joint_excess_joint_degree_matrices import JointExcessJointDegreeMatrices
        names = case["names"]
        ej = {names[i]: _pdict(m) for i, m in enumerate(case["ejks"])}
        if case.get("reuse"):
            # history on ONE matrices object: it held other matrices before; the caller replaces them through the
            # public setter and re-derives the keys
            decoy = {n: {tuple(x + 1 for x in k): v for k, v in m.items()} for n, m in ej.items()}
            M = JointExcessJointDegreeMatrices({ToolsNames.EJKS: decoy, ToolsNames.EDGE_NAMES: names[:len(case["ejks"])]})
            M.ejks = ej
            M.get_excess_degree_keys()
        else:
            M = JointExcessJointDegreeMatrices({ToolsNames.EJKS: ej, ToolsNames.EDGE_NAMES: names[:len(case["ejks"])]})
        split = [[names.index(n), sorted(list(k) for k in ks)] for n, ks in M.excess_degree_keys.items()]
        split_raw = [[names.index(n), [list(k) for k in ks]] for n, ks in M.excess_degree_keys.items()]
        if case["xkeys"] is not None:
            M.excess_degree_keys = {names[j]: [tuple(k) for k in ks] for j, ks in case["xkeys"]}
        used = [[names.index(n), [list(k) for k in ks]] for n, ks in M.excess_degree_keys.items()]
        rows = _guard(lambda: [[names.index(n), _dobs(q)]
                               for n, q in JointExcessFromEjk.get_excess_joint_distributions(M).items()])
        return {"split": split, "split_raw": split_raw, "used": used, "rows": rows}
    if kind == "net":
        from gcmpy.names.tools_names import ToolsNames
        from gcmpy.tools.joint_degree_distribution_from_network import JointDegreeDistributionFromNetwork
        from gcmpy.tools.joint_excess_from_ejk import JointExcessFromEjk
        from gcmpy.tools.joint_excess_from_jdd import JointExcessfromJDD
        from gcmpy.tools.joint_excess_joint_degree import JointExcessJointDegree
        c = _materialise_net(case)
        names = c["names"]
        G = c13.build_graph(c)
        jdd = _guard(lambda: JointDegreeDistributionFromNetwork.get_joint_degree_distribution(G))

        def rows():
            X = c13.extractor_with_history(c, G)
            q = JointExcessFromEjk.get_excess_joint_distributions(X.get_ejks())
            return [[names.index(n), _dobs(d)] for n, d in q.items()]
        fwd = jdd if core.is_exc(jdd) else _guard(
            lambda: [_dobs(q) for q in JointExcessfromJDD.get_joint_excess_distributions(jdd)])
        return {"jds": c["jds"], "edges": c["edges"], "jdd": jdd if core.is_exc(jdd) else _dobs(jdd),
                "rows": _guard(rows), "fwd": fwd}
    raise ValueError(kind)


# ------------------------------------------------------------------ model side
def _idx(names):
    return list(range(len(names)))


def _net_of(case, io):
    if "jds" in case:
        return case["jds"], case["edges"]
    return io["jds"], io["edges"]


def model_calls(case, io):
    kind = case["kind"]
    if kind == "jdd":
        return [("c14_run", [1, case["P"]]), ("c14_run", [0, case["P"]]),
                ("c14_run", [8, case["P"], _idx(case["names"])])]
    if kind == "qks":
        qks = [[i, q] for i, q in enumerate(case["qks"])]
        return [("c14_run", [2, case["qks"][case["single"]], case["single"]]),
                ("c14_run", [3, qks, case["order"]])]
    if kind == "rows":
        ej = [[i, m] for i, m in enumerate(case["ejks"])]
        if core.is_exc(io):
            return []
        return [("c14_run", [5, ej]), ("c14_run", [4, ej, io["split_raw"] if case["xkeys"] is None else case["xkeys"]])]
    if kind == "net":
        if core.is_exc(io):
            return []
        jds, es = _net_of(case, io)
        return [("c14_run", [6, jds]), ("c14_run", [7, _idx(case["names"]), jds, es])]
    return []


def _res(t, f):
    """decode of_res"""
    if isinstance(t, str):
        return ["!model", t]
    if len(t) == 2 and t[0] == -1:
        return ["!exc", ERR.get(t[1], "?%s" % t[1])]
    return f(t[1])


def _dd(t):
    return sorted([[k, Fraction(v[0], v[1])] for k, v in t])


def model_obs(case, raws):
    kind = case["kind"]
    if kind == "jdd":
        return {"mean": _res(raws[0], lambda l: [Fraction(a, b) for a, b in l]),
                "fwd": _res(raws[1], lambda l: [_dd(d) for d in l]),
                "inv": _res(raws[2], lambda l: [[ck, _res(r, _dd)] for ck, r in l])}
    if kind == "qks":
        return {"single": _res(raws[0], _dd), "inv": _res(raws[1], lambda l: [[ck, _res(r, _dd)] for ck, r in l])}
    if kind == "rows":
        if not raws:
            return None
        return {"split": [[n, sorted(ks)] for n, ks in raws[0]],
                "rows": _res(raws[1], lambda l: [[n, _dd(d)] for n, d in l])}
    if kind == "net":
        if not raws:
            return None
        return {"jdd": _dd(raws[0]), "rows": _res(raws[1][0], lambda l: [[n, _dd(d)] for n, d in l]),
                "fwd": _res(raws[1][1], lambda l: [_dd(d) for d in l])}
    return None


def _cmp_d(a, b, what):
    if core.is_exc(a) or core.is_exc(b):
        return None if a == b else f"{what}: impl {a} model {b}"
    if isinstance(b, list) and b and b[0] == "!model":
        return f"{what}: model failed {b}"
    return c13._cmp_dict(a, b, what)


def _cmp_ds(a, b, what):
    if core.is_exc(a) or core.is_exc(b):
        return None if a == b else f"{what}: impl {a} model {b}"
    if len(a) != len(b):
        return f"{what}: {len(a)} dicts, model {len(b)}"
    for i, (x, y) in enumerate(zip(a, b)):
        d = _cmp_d(x, y, f"{what}[{i}]")
        if d:
            return d
    return None


def _cmp_named(a, b, what):
    if core.is_exc(a) or core.is_exc(b):
        return None if a == b else f"{what}: impl {a} model {b}"
    if [n for n, _ in a] != [n for n, _ in b]:
        return f"{what}: names impl {[n for n, _ in a]} model {[n for n, _ in b]}"
    for (n, x), (_, y) in zip(a, b):
        d = _cmp_d(x, y, f"{what}[name {n}]")
        if d:
            return d
    return None


def _cmp_inv(a, b, what):
    """the model lists the result for every common key; the implementation must agree with one"""
    if core.is_exc(b) or (isinstance(b, list) and b and b[0] == "!model"):
        return None if a == b else f"{what}: impl {a} model {b}"
    msgs = []
    for ck, r in b:
        d = _cmp_d(a, r, what)
        if d is None:
            return None
        msgs.append(f"ck={ck}: {d}")
    return f"{what}: no common key explains the result: " + " | ".join(msgs[:3])


def compare(case, io, mo):
    kind = case["kind"]
    if core.is_exc(io):
        return f"implementation raised {io[1]} outside the observed routines"
    if kind == "jdd":
        if io["P_after"] != _norm(case["P"]):
            return "the input distribution was modified"
        def cmp_mean(im, what):
            if core.is_exc(im) or core.is_exc(mo["mean"]):
                return None if im == mo["mean"] else f"{what}: impl {im} model {mo['mean']}"
            d = None
            if len(im) != len(mo["mean"]):
                d = f"{what}: length"
            for x, q in zip(im, mo["mean"]):
                if not core.close(Fraction(x[0], x[1]), q):
                    d = f"{what}: impl {x} model {q}"
            return d
        return (cmp_mean(io["mean"], "mean") or _cmp_ds(io["fwd"], mo["fwd"], "forward")
                or _cmp_inv(io["inv"], mo["inv"], "inverse")
                or ("inv2" in io and _cmp_inv(io["inv2"], mo["inv"], "inverse (second call on the same excess dictionaries)"))
                or cmp_mean(io["mean2"], "mean (again on the same P dictionary)")
                or _cmp_ds(io["fwd2"], mo["fwd"], "forward (again on the same P dictionary)") or None)
    if kind == "qks":
        if io["qks_after"] != [_norm(q) for q in case["qks"]]:
            return "the input excess distributions were modified"
        return (_cmp_d(io["single"], mo["single"], "invert_single") or _cmp_inv(io["inv"], mo["inv"], "inversion")
                or _cmp_inv(io["inv2"], mo["inv"], "inversion (second call on the same dictionaries)"))
    if kind == "rows":
        if io["split"] != mo["split"]:
            return f"key halves impl {io['split']} model {mo['split']}"
        if any(len(set(map(tuple, ks))) != len(ks) for _, ks in io["split"]):
            return "key halves contain duplicates"
        return _cmp_named(io["rows"], mo["rows"], "row sums")
    if kind == "net":
        return (_cmp_d(io["jdd"], mo["jdd"], "jdd_from_network") or _cmp_named(io["rows"], mo["rows"], "net rows")
                or _cmp_ds(io["fwd"], mo["fwd"], "net forward"))
    return "unknown kind"


# ------------------------------------------------------------------ verified checker on the implementation's outputs
def _jdd_valid(case):
    P = case["P"]
    if not P:
        return False
    T = len(P[0][0])
    return all(len(k) == T and all(x >= 0 for x in k) for k, _ in P) and len({tuple(k) for k, _ in P}) == len(P)


def _mean_ok(case):
    P = case["P"]
    T = len(P[0][0])
    for i in range(T):
        m = sum(Fraction(p[0], p[1]) * k[i] for k, p in P)
        if m == 0 and any(k[i] > 0 for k, _ in P):
            return False
    return True


def _inv_hyp(case):
    P = case["P"]
    return (_jdd_valid(case) and len(P[0][0]) >= 1 and all(p[0] > 0 for _, p in P)
            and any(all(x > 0 for x in k) for k, _ in P))


def _clean_cs(names, jds, es):
    """c_t with tdeg v t = c_t * jd_v[i] for every vertex, or None"""
    cs = []
    for i in range(len(names)):
        td = [0] * len(jds)
        for u, v, t in es:
            if t == i:
                td[u] += 1
                td[v] += 1
        c = None
        for v, k in enumerate(jds):
            if k[i] > 0:
                if td[v] % k[i]:
                    return None
                c = td[v] // k[i] if c is None else c
                if td[v] != c * k[i]:
                    return None
            elif td[v] != 0:
                return None
        if not c:
            return None
        cs.append(c)
    return cs


def _plan(case, io):
    """list of (label, checker call, must_not_raise observation)"""
    kind = case["kind"]
    plan = []
    if core.is_exc(io):
        return plan
    if kind == "jdd" and _jdd_valid(case):
        plan.append(("mean", [1, EPS, case["P"], io["mean"]], io["mean"]))
        if _mean_ok(case):
            plan.append(("forward", [0, EPS, case["P"], io["fwd"]], io["fwd"]))
        if _inv_hyp(case):
            plan.append(("inverse", [2, EPS, case["P"], io["inv"]], io["inv"]))
            if "inv2" in io:
                plan.append(("inverse (second call on the same excess dictionaries)", [2, EPS, case["P"], io["inv2"]],
                             io["inv2"]))
        plan.append(("mean (again on the same P dictionary)", [1, EPS, case["P"], io["mean2"]], io["mean2"]))
        if _mean_ok(case):
            plan.append(("forward (again on the same P dictionary)", [0, EPS, case["P"], io["fwd2"]], io["fwd2"]))
    if kind == "rows":
        for n, ks in io["split"]:
            plan.append(("key halves", [5, EPS, case["ejks"][n], ks], ks))
    if kind == "rows" and not core.is_exc(io["rows"]):
        used = dict((n, ks) for n, ks in io["used"])
        for n, q in io["rows"]:
            ks = used.get(n)
            if ks is not None and len({tuple(k) for k in ks}) == len(ks):
                plan.append(("rows", [3, EPS, case["ejks"][n], ks, q], q))
    if kind == "net":
        jds, es = _net_of(case, io)
        T = len(case["names"])
        plan.append(("jdd_from_network", [6, EPS, jds, io["jdd"]], io["jdd"]))
        if jds and all(len(k) == T and all(x >= 0 for x in k) for k in jds):
            cs = _clean_cs(case["names"], jds, es)
            if cs is not None and all(t < T for _, _, t in es):
                obs = io["rows"] if not core.is_exc(io["rows"]) and not core.is_exc(io["fwd"]) else ["!exc", "x"]
                plan.append(("network", [4, EPS, _idx(case["names"]), jds, es, cs,
                                         io["rows"] if not core.is_exc(obs) else [],
                                         io["fwd"] if not core.is_exc(obs) else []],
                             io["rows"] if core.is_exc(io["rows"]) else io["fwd"]))
    return plan


def check_calls(case, io):
    return [("c14_check", t) for _, t, o in _plan(case, io) if not core.is_exc(o)]


def check_verdict(case, io, raws):
    if core.is_exc(io):
        return f"implementation raised {io[1]}"
    raws = list(raws)
    for label, _, o in _plan(case, io):
        if core.is_exc(o):
            return f"{label}: implementation raised {o[1]} on an input satisfying the hypotheses"
        r = raws.pop(0) if raws else None
        if r != 1:
            return f"c14_check rejected the observed {label} result"
    return None


def nontrivial_key(case, io):
    if core.is_exc(io):
        return None
    kind = case["kind"]
    if kind == "jdd":
        ok = not core.is_exc(io["inv"]) and len(io["inv"]) >= 2
    elif kind == "qks":
        ok = not core.is_exc(io["inv"]) and len(io["inv"]) >= 2
    elif kind == "rows":
        ok = not core.is_exc(io["rows"]) and any(len(q) >= 2 for _, q in io["rows"])
    else:
        ok = not core.is_exc(io["rows"]) and any(len(q) >= 2 for _, q in io["rows"])
    return case if ok else None


def shrink(case):
    kind = case["kind"]
    if kind == "jdd":
        P = case["P"]
        for i in range(len(P)):
            yield dict(case, P=P[:i] + P[i + 1:])
    elif kind == "qks":
        for j, q in enumerate(case["qks"]):
            for i in range(len(q)):
                qs = list(case["qks"])
                qs[j] = q[:i] + q[i + 1:]
                yield dict(case, qks=qs)
    elif kind == "rows":
        for j, q in enumerate(case["ejks"]):
            for i in range(len(q)):
                qs = list(case["ejks"])
                qs[j] = q[:i] + q[i + 1:]
                yield dict(case, ejks=qs)
    elif kind == "net" and "jds" in case:
        es = case["edges"]
        for i in range(len(es)):
            yield dict(case, edges=es[:i] + es[i + 1:])


def describe(case, io):
    d = {"kind": case["kind"], "names": case["names"]}
    for k in ("P", "qks", "ejks", "real"):
        if k in case:
            d[k] = case[k]
    if not core.is_exc(io):
        for k in ("inv", "rows"):
            if k in io:
                d["impl_" + k] = io[k] if core.is_exc(io[k]) else str(io[k])[:300]
    return d


def histogram(cases):
    h = {"cases": len(cases)}
    for c in cases:
        k = c["kind"] + ("-real" if "real" in c else "")
        h[k] = h.get(k, 0) + 1
        if c["kind"] == "jdd" and c["P"]:
            t = "jdd-topologies=%d" % len(c["P"][0][0])
            h[t] = h.get(t, 0) + 1
    return h
