"""C16 — closed-form clique / cycle equations and the connected-graph counts vs the Gallina models
(Model/QCount.v, Model/CliqueEq.v).  A case is a SEQUENCE of calls executed in one interpreter state
(the lru_caches of Q / QQ / binomial are cleared at the start of the case only), so cache-related
regressions show up on second calls / unusual call orders.  The equations are run on exact polynomial
arguments (harness/props/poly16.py) and compared coefficient-wise."""
import json

from harness.props.poly16 import Poly, canon_monos

ID = "C16"
RULE = ("a case = a sequence (history) of calls Q(n,k) / QQ(n,k) / number_of_connected_graphs(G,ak,i,k) / "
        "clique_equation(tau,phi,Hs) / chordless_cycle_equation(n,u,phi) run in one interpreter state (the three anchored "
        "modules are re-loaded at the start of the case only, so lru_caches / module memos live across the calls of a "
        "case); graph, ak and Hs OBJECTS are shared between the calls of a case and edited in place between calls "
        "(edges / vertices added and removed, the same question asked before and after), graphs carry node / edge / "
        "graph attribute data and every call's arguments are compared before / after (deep copy incl. attributes and "
        "adjacency order); Q for all n<=12 and all k "
        "(in and just outside 0..n(n-1)/2), ascending, descending, shuffled and repeated; QQ for n<=6 all k; the counter "
        "on random substrates with <=7 vertices, arbitrary labels, random vertex subsets and focal vertices, all k; the "
        "counter on STRUCTURED substrates (3 in the corpus, 28 quick / 124 thorough): well-connected blocks (K3..K5, C4, C5, "
        "K_{2,3}, wheel) glued by thin joints (a bridge, two links, a shared vertex, a path through a new vertex, chains of "
        "three blocks), i.e. connected induced subgraphs whose edge connectivity, vertex connectivity and minimum degree "
        "differ, up to 14 (thorough 16) induced edges, random labels, alone or as a proper vertex subset of a larger "
        "substrate, EVERY k; the "
        "equations on exact polynomial arguments (distinct variables per neighbour, repeated variables, constants), "
        "compared coefficient by coefficient with the model polynomial and judged by the verified checker against the "
        "exact bond-percolation expectation; THROUGH MessagePassing (2 cases in the corpus, 13 quick / 39 thorough): the K_tau "
        "(tau 2..5, every focal vertex, heterogeneous messages) and C_n (n 3..9, one message for all neighbours) motif of an "
        "edge-disjoint covered network evaluated by MessagePassing.resolve_equation(focal, cover label, messages) on ONE "
        "object per network (iterations=0, theoretical(phi) installs phi), cover labels '<key>-[vertices]-[edges]-<uid>' with "
        "the integer key chosen per topology in six ways (clique size, EDGE COUNT, index from 1 / from 0, arbitrary, VERTEX COUNT also for cycles), literals "
        "spelled as list / tuple / without spaces / edges as lists, uids overlapping or disjoint from the vertex labels (up to "
        "70000), other motifs of the cover touching the motif (pendant edges, triangles, for cycles their CHORDS covered as "
        "separate 2-cliques), judged by the same checker against the closed form of the motif written in the label; "
        "non-trivial = at least one in-domain call with a non-zero result; "
        "distinct by the full call list")
EXHAUSTIVE = {"quick": True, "thorough": True}
EXPLANATION = ("the full statement of the property is a theorem: C16_holds : C16_full in Props/C16.v (growth round) - "
               "clique_equation = exact bond-percolation expectation on K_tau for EVERY tau >= 2 with heterogeneous H "
               "(C16_clique_identity_general), chordless_cycle_equation = the expectation on C_n for EVERY n >= 3 "
               "(C16_cycle_identity_general), Q (recursion as written and memoised table) = QQ = number of connected labelled "
               "graphs for ALL n, k (C16_Q_count_general, which needed Cayley's formula C16_Cayley_formula for the k = n-1 "
               "shortcut), the counter on every substrate (C16_ncg_spec); all general, by induction, axiom free. Also general: "
               "connectedb_spec, table = recursion, the exponential-formula recurrence cross = the count "
               "(C16_cross_counts_connected_graphs), checker soundness for every n (C16_check_count_sound_all) and the model "
               "passes the checker for every n (C16_Q_model_meets_check_general). The older bounded theorems (tau<=6, cycle "
               "n<=10, Q=QQ=brute n<=6, Q=cross n<=12) are kept as independent checks. Correspondence exhaustive over (n,k) "
               "for Q n<=12, QQ n<=6, tau<=6, cycle n<=12, and all 4-vertex substrates x vertex subsets x k for the counter, "
               "plus seeded random substrates; the clique / cycle motifs are also evaluated through MessagePassing.resolve_equation "
               "on covered networks (cover keys not tied to the motif size) and judged by the same checker")
ASSUMPTIONS = ["networkx Graph.copy / remove_node / remove_edge / edges / is_connected / complete_graph and "
               "itertools.combinations behave as modelled (their results are compared with the model on every case)",
               "math.factorial, int pow and float arithmetic on the small integral floats of omega() are exact"]
TRUSTED = ["exact polynomial class harness/props/poly16.py (+ - * pow over Fractions; floats absorbed exactly) "
           "substituted for phi / u / H when running the real equation code"]
TECHNIQUE = ("Coq: general proofs by induction, no bound (connectivity decision; counting; memo table = recursion; cycle "
             "identity via run-length recursions on edge masks; complement involution for QQ; regrouping of the clique "
             "expectation by the root's component + relabelling invariance; exponential-formula recurrence = count via the "
             "counting identity; Cayley's formula via the rooted-forest recurrence; the recursion Q = count by strong "
             "induction) + older reflection results kept (vm_compute over a stated finite range) + model/implementation "
             "correspondence on exact polynomial arguments")
LEVEL_TEXT = (
    "coq/Props/C16.v. FULL, GENERAL (all inputs, no bound): C16_holds : C16_full, i.e. (1) clique_equation evaluated on "
    "rationals = exact bond-percolation expectation on K_tau seen from vertex 0, for EVERY tau >= 2, every rational phi, "
    "every heterogeneous list of tau-1 neighbour values (clique_identity_general); (2) chordless_cycle_equation = the "
    "expectation on C_n for EVERY n >= 3, all rational u, phi (cycle_identity_general); (3) the recursion Q as written "
    "(Qcode), its memoised evaluation (Qv) and the brute-force QQ all equal brute n k = the cardinality of the set of "
    "connected labelled graphs with n vertices and k edges, for ALL n >= 1 and 0 <= k <= n(n-1)/2 (Q_count_general, "
    "brute_spec); (4) number_of_connected_graphs returns the cardinality of {k-subsets T of the induced edges : induced "
    "graph minus T connected} on every substrate (ncg_spec). Ingredients, each a theorem of its own: connectedb decides "
    "path-connectivity (connectedb_spec); memo table = recursion with factorial binomials (Q_table_is_recursion); QQ = "
    "brute by the complement involution (QQ_eq_brute_general); omega(tau,kappa) = (kappa+1)(tau-kappa-1) = number of "
    "interface edges (omega_closed_form, interface_edge_count); the root's component is C iff no interface edge is kept "
    "and the inside is connected (component_characterisation); counts are invariant under injective relabelling; the "
    "exact clique expectation regroups into sum_kappa [sum_e brute(kappa+1,e) phi^e (1-phi)^(C(kappa+1,2)-e)] "
    "(1-phi)^omega e_kappa(H) (exact_clique_regrouped); the counting identity C(s_n,k) = sum_kappa C(n-1,kappa) sum_i "
    "brute(kappa+1,i) C(s_{n-kappa-1},k-i) (counting_identity), hence the exponential-formula recurrence cross n k = "
    "brute n k for all n, k (cross_counts_connected_graphs); a connected graph on n vertices has >= n-1 edges "
    "(connected_needs_n_minus_1_edges); the number of rooted forests |V| N(V,R) = |R| |V|^(|V|-|R|) (rooted_forest_count) "
    "and CAYLEY'S FORMULA brute n (n-1) = n^(n-2) (Cayley_formula) for the k = n-1 shortcut of Q. Checker: c16_check is "
    "sound, and for counts it accepts only the true count for every n (check_count_sound_all, check_row_sound_all); the "
    "model's Q / QQ / counter outputs pass it for every input (Q_model_meets_check_general, ncg_model_meets_check). "
    "BOUNDED results of the first round are kept as independent checks (reflection, bound in the name): Q = QQ = brute by "
    "direct enumeration n<=6 (thorough 7), Q = cross n<=12 (thorough 20), clique identity tau<=6 by polynomial normal "
    "forms, cycle n<=10 (thorough 14), model polynomials pass check_clique / check_cycle for tau<=6 / n<=10. The model is "
    "tied to the code by exact comparison on every run (polynomials coefficient-wise), and c16_check judges the "
    "implementation's own outputs against the specification.")
LEVEL_NOTE = ("Trusted: Coq kernel (+ vm_compute for the older bounded theorems and the non-vacuity examples only - none of the "
              "general theorems uses reflection); extraction (ExtrOcamlBasic) + OCaml driver + Python harness incl. the "
              "exact polynomial class for the correspondence; networkx primitives as modelled. The cycle equation is "
              "stated for one u shared by all neighbours (the code's signature). For 8<=n the checker judges Q against "
              "the exponential-formula recurrence `cross`, which is PROVED equal to the number of connected labelled graphs "
              "for every n, k. Not general (and not needed for C16_full): 'the model polynomial passes check_clique / "
              "check_cycle' is proved for tau<=6 / n<=10 only (it is a statement about Ring_polynom normal forms). "
              "No axioms (Print Assumptions: closed under the global context).")

IMPL_TIMEOUT = 120.0
EXC = {1: "ZeroDivisionError", 2: "ValueError", 3: "NetworkXPointlessConcept"}


def tri(n):
    return n * (n - 1) // 2


def X(i):
    return [[1, [0] * (i - 1) + [1]]]


def CONST(c):
    return [[c, []]] if c else []


# ------------------------------------------------------------------ generators
def _q_sweep(n, order="asc"):
    ks = list(range(-1, tri(n) + 2))
    if order == "desc":
        ks.reverse()
    return [["Q", n, k] for k in ks]


def _clique_call(tau, hs=None, phi=None):
    if hs is None:
        hs = [X(i + 2) for i in range(tau - 1)]
    return ["clique", tau, phi if phi is not None else X(1), hs]


def corpus():
    cs = []
    # the points gcmpy's own tests pin, plus their neighbours, called twice
    cs.append({"calls": [["QQ", 6, 15 - i] for i in range(12)] + [["Q", 6, 15 - i] for i in range(12)]})
    cs.append({"calls": [["Q", 4, 3], ["Q", 4, 4], ["Q", 4, 3], ["QQ", 4, 3], ["QQ", 4, 3], ["Q", 3, 3], ["Q", 1, 0],
                         ["Q", 2, 1], ["Q", 0, 0], ["Q", 0, -1], ["QQ", 0, 0], ["QQ", 1, 0], ["QQ", 3, 4],
                         ["QQ", 3, -1]]})
    tri3 = [[0, 1, 2, 3], [[0, 1], [1, 2], [0, 2], [2, 3]]]
    cs.append({"calls": [["ncg", tri3[0], tri3[1], [1, 2], 0, k] for k in (1, 0, 2, 3, 4, 1)] +
                        [["ncg", tri3[0], tri3[1], [1, 2, 3], 0, k] for k in (0, 1, 2)] +
                        [["ncg", tri3[0], tri3[1], [], 5, 0], ["ncg", tri3[0], tri3[1], [1], 0, -1]]})
    sq = [[0, 1], [1, 2], [2, 3], [0, 3]]
    cs.append({"calls": [["ncg", [0, 1, 2, 3], sq, [1, 2, 3], 0, 1, "g"], ["ncg", [0, 1, 2, 3], sq, [1, 2, 3], 0, 2, "g"],
                         ["ncg", [0, 1, 2, 3], sq + [[0, 2]], [1, 2, 3], 0, 1, "g"],
                         ["ncg", [0, 1, 2, 3], sq + [[0, 2]], [1, 2, 3], 0, 2, "g"],
                         ["ncg", [0, 1, 2, 3, 7], sq + [[0, 2], [7, 3]], [1, 2, 3, 7], 0, 2, "g"],
                         ["ncg", [0, 1, 2, 3], sq, [1, 2, 3], 0, 1, "g"], ["ncg", [0, 1, 2], [[0, 1], [1, 2]], [1, 2], 0, 0, "g"],
                         ["ncg", [0, 1, 2], [[0, 1], [1, 2]], [1, 2], 0, 1, "g"]]})
    # blocks joined by thin joints (edge connectivity < minimum degree): two triangles / two K4 and a bridge, all k
    import random
    srng = random.Random(160716)
    cs.append(_structured_case(srng, 16, blocks=[("K", 3), ("K", 3)], joint="bridge", embed=False))
    cs.append(_structured_case(srng, 16, blocks=[("K", 4), ("K", 4)], joint="bridge", embed=True))
    cs.append(_structured_case(srng, 16, blocks=[("K", 4), ("C", 4)], joint="two", embed=False))
    cs.append({"calls": [_clique_call(t) for t in (2, 3, 4)] + [["cycle", n, X(2), X(1)] for n in (3, 4, 5)]})
    cs.append({"calls": [_clique_call(3, [X(2), X(2)]), _clique_call(4, [X(2), CONST(1), CONST(0)]),
                         _clique_call(3, [X(2), X(3)], CONST(1)), ["cycle", 3, CONST(1), X(1)],
                         ["cycle", 2, X(2), X(1)], ["cycle", 1, X(2), X(1)]]})
    # the same equations reached through MessagePassing.resolve_equation: cliques under keys that are not their size,
    # a 4-, 5- and 6-cycle whose chords are covered by separate 2-cliques
    import random
    rng = random.Random(1616)
    calls = []
    for tau, km in ((2, "edges"), (3, "index0"), (4, "edges"), (4, "size"), (3, "big")):
        calls += _mp_clique_calls(rng, tau, _mp_opts(rng, "clique", tau, keymode=km, fmt="list", labels=list(range(10))), 1)
    cs.append({"calls": calls})
    calls = []
    for n, km in ((4, "size"), (5, "index"), (6, "edges")):
        calls += _mp_cycle_calls(rng, n, _mp_opts(rng, "cycle", n, keymode=km, fmt="list", chords=1.0,
                                                    labels=list(range(12))), 1)
    cs.append({"calls": calls})
    return cs


LABELS = list(range(10)) + [13, 17, 40, 63, 64, 65, 100, 257, 1000]   # non-contiguous, beyond 8 / 16 / 64


def _rand_graph(rng, nv_max=7, emax=10):
    while True:
        nv = rng.randint(1, nv_max)
        nodes = rng.sample(LABELS if rng.random() < 0.5 else range(10), nv)
        p = rng.choice([0.3, 0.5, 0.7, 0.9])
        edges = [[a, b] if rng.random() < 0.5 else [b, a]
                 for ai, a in enumerate(nodes) for b in nodes[ai + 1:] if rng.random() < p]
        rng.shuffle(edges)
        if len(edges) <= emax + 3:
            return nodes, edges


def _induced_count(nodes, edges, ak, i):
    vs = {v for v in nodes if v == i or v in ak}
    return len({(min(a, b), max(a, b)) for a, b in edges if a in vs and b in vs})


def _ncg_case(rng, emax=10):
    nodes, edges = _rand_graph(rng, 7, emax)
    calls = []
    for _ in range(rng.randint(1, 3)):
        for _try in range(20):
            ak = [v for v in nodes if rng.random() < rng.choice([0.5, 0.8, 1.0])]
            if rng.random() < 0.1:
                ak.append(11)
            i = rng.choice(nodes) if rng.random() < 0.93 else 12
            rng.shuffle(ak)
            ne = _induced_count(nodes, edges, ak, i)
            if ne <= emax:
                break
        else:
            continue
        ks = list(range(0, ne + 2))
        rng.shuffle(ks)
        if rng.random() < 0.3:
            ks.append(rng.choice(ks))
        calls += [["ncg", nodes, edges, ak, i, k] for k in ks]
    return {"calls": calls}


def _big_sparse_case(rng, emax=9):
    """substrates with 9..24 vertices (labels in shuffled insertion order, non-contiguous): a random tree plus a few
    chords; the induced subgraph asked about is small enough for the brute-force counter"""
    nv = rng.randint(9, 24)
    nodes = rng.sample(range(0, 120), nv)
    edges = []
    for j in range(1, nv):
        edges.append([nodes[j], nodes[rng.randrange(j)]])
    for _ in range(rng.randint(0, 4)):
        a, b = rng.sample(nodes, 2)
        if [a, b] not in edges and [b, a] not in edges:
            edges.append([a, b])
    rng.shuffle(edges)
    calls = []
    for _ in range(2):
        for _try in range(30):
            i = rng.choice(nodes)
            ak = [v for v in nodes if rng.random() < rng.choice([0.3, 0.6, 1.0])]
            rng.shuffle(ak)
            ne = _induced_count(nodes, edges, ak, i)
            if ne <= emax:
                break
        else:
            continue
        ks = list(range(0, ne + 2))
        rng.shuffle(ks)
        calls += [["ncg", nodes, edges, ak, i, k] for k in ks[:6]]
    return {"calls": calls}


def _two_objects_case(rng, emax=8):
    """two graph objects alive at once, nearly equal (one edge apart), the same questions interleaved on both"""
    nodes, edges = _rand_graph(rng, 6, emax - 1)
    nodes, edges = list(nodes), [list(e) for e in edges]
    edges2 = [list(e) for e in edges]
    present = {(min(a, b), max(a, b)) for a, b in edges}
    cand = [[a, b] for ai, a in enumerate(nodes) for b in nodes[ai + 1:] if (min(a, b), max(a, b)) not in present]
    if cand and (not edges2 or rng.random() < 0.5):
        edges2.append(rng.choice(cand))
    elif edges2:
        edges2.pop(rng.randrange(len(edges2)))
    ak = [v for v in nodes if rng.random() < 0.9]
    i = rng.choice(nodes)
    calls = []
    ne = max(_induced_count(nodes, edges, ak, i), _induced_count(nodes, edges2, ak, i))
    if ne > emax + 1:
        return {"calls": []}
    for k in rng.sample(range(0, ne + 2), min(ne + 2, 4)):
        pair = [["ncg", nodes, edges, ak, i, k, "gA"], ["ncg", nodes, edges2, ak, i, k, "gB"]]
        if rng.random() < 0.5:
            pair.reverse()
        calls += pair
        if rng.random() < 0.4:
            calls.append(list(pair[0]))
    return {"calls": calls}


def _ncg_history_case(rng, emax=9):
    """one graph OBJECT (7th field = object id) that the caller keeps editing between calls: edges / vertices
    added and removed in place, the same (ak, i, k) asked before and after each edit, ak list object reused"""
    nodes, edges = _rand_graph(rng, 6, emax - 2)
    nodes, edges = list(nodes), [list(e) for e in edges]
    calls = []
    ak = [v for v in nodes if rng.random() < 0.85]
    i = rng.choice(nodes)
    for _step in range(rng.randint(3, 5)):
        ne = _induced_count(nodes, edges, ak, i)
        if ne <= emax:
            ks = rng.sample(range(0, ne + 2), min(ne + 2, rng.randint(2, 4)))
            for k in ks + ks[:1]:
                calls.append(["ncg", list(nodes), [list(e) for e in edges], list(ak), i, k, "g0"])
        op = rng.choice(["add_edge", "add_edge", "del_edge", "del_edge", "add_node", "del_node", "ak", "focal"])
        present = {(min(a, b), max(a, b)) for a, b in edges}
        if op == "add_edge":
            cand = [[a, b] for ai, a in enumerate(nodes) for b in nodes[ai + 1:]
                    if (min(a, b), max(a, b)) not in present]
            if cand:
                edges.append(rng.choice(cand))
        elif op == "del_edge" and edges:
            edges.pop(rng.randrange(len(edges)))
        elif op == "add_node":
            new = [v for v in range(10) if v not in nodes]
            if new and len(nodes) < 7:
                v = rng.choice(new)
                for w in rng.sample(nodes, min(len(nodes), rng.randint(0, 2))):
                    edges.append([v, w])
                nodes.append(v)
                if rng.random() < 0.7:
                    ak.append(v)
        elif op == "del_node" and len(nodes) > 2:
            v = rng.choice([x for x in nodes if x != i] or nodes)
            nodes.remove(v)
            edges = [e for e in edges if v not in e]
            if v == i:
                i = nodes[0]
        elif op == "ak":
            ak = [v for v in nodes if rng.random() < 0.7]
        elif op == "focal":
            i = rng.choice(nodes)
    return {"calls": calls}


# ------------------------------------------------------------------ structured substrates
# Random graphs on <= 7 vertices almost never separate the graph invariants a "shortcut" may confuse: minimum degree vs
# EDGE connectivity vs VERTEX connectivity, bridges vs cut vertices, cyclomatic number vs number of cycles.  The smallest
# connected graph with edge connectivity < minimum degree has 6 vertices and 7 edges (two triangles and a bridge).  These
# substrates are glued from well-connected BLOCKS (cliques, cycles, K_{2,3}, wheels) by thin JOINTS (a bridge, two
# parallel links, a shared vertex, a path through a new vertex, a chain of three blocks), relabelled at random, optionally
# embedded in a larger substrate (pendant vertices / extra chords outside ak), and asked for EVERY k.
STRUCT_BLOCKS = [("K", 3), ("K", 3), ("K", 4), ("K", 4), ("C", 4), ("C", 5), ("B", 5), ("W", 5), ("K", 5)]
STRUCT_JOINTS = ["bridge", "bridge", "two", "share", "path", "three"]
STRUCT_LABELS = list(range(0, 14)) + [17, 40, 63, 64, 65, 100, 257, 1000]


def _block(kind, n, base):
    vs = list(range(base, base + n))
    if kind == "K":
        es = [[vs[a], vs[b]] for a in range(n) for b in range(a + 1, n)]
    elif kind == "C":
        es = [[vs[a], vs[(a + 1) % n]] for a in range(n)]
    elif kind == "B":                      # K_{2,n-2}
        es = [[vs[a], vs[b]] for a in range(2) for b in range(2, n)]
    else:                                  # wheel: hub vs[0] + rim
        rim = vs[1:]
        es = [[vs[0], r] for r in rim] + [[rim[a], rim[(a + 1) % len(rim)]] for a in range(len(rim))]
    return vs, es


def _structured_graph(rng, emax, blocks=None, joint=None):
    for _try in range(50):
        j = joint or rng.choice(STRUCT_JOINTS)
        nb = 3 if j == "three" else 2
        bl = blocks or [rng.choice(STRUCT_BLOCKS) for _ in range(nb)]
        vs, es, parts = [], [], []
        for kind, n in bl:
            bv, be = _block(kind, n, len(vs))
            vs += bv
            es += be
            parts.append(bv)
        for a, b in zip(parts, parts[1:]):
            jj = rng.choice(["bridge", "two", "share"]) if j == "three" else j
            if jj == "bridge":
                es.append([rng.choice(a), rng.choice(b)])
            elif jj == "two":
                a2, b2 = rng.sample(a, 2), rng.sample(b, 2)
                es += [[a2[0], b2[0]], [a2[1], b2[1]]]
            elif jj == "path":
                w = len(vs)
                vs.append(w)
                es += [[rng.choice(a), w], [w, rng.choice(b)]]
            else:                          # share: identify one vertex of b with one of a
                x, y = rng.choice(a), rng.choice(b)
                es = [[x if u == y else u, x if v == y else v] for u, v in es]
                vs.remove(y)
                b[b.index(y)] = x
        if len(es) <= emax:
            return vs, es
    return _structured_graph(rng, emax, blocks=[("K", 3), ("K", 3)], joint="bridge")


def _structured_case(rng, emax=14, blocks=None, joint=None, embed=None):
    vs, es = _structured_graph(rng, emax, blocks, joint)
    pool = STRUCT_LABELS if rng.random() < 0.5 else range(0, 20)
    if len(pool) < len(vs) + 3:
        pool = range(0, len(vs) + 6)
    lab = rng.sample(pool, len(vs) + 3)
    m = dict(zip(vs, lab))
    motif = [m[v] for v in vs]
    edges = [[m[a], m[b]] if rng.random() < 0.5 else [m[b], m[a]] for a, b in es]
    nodes = list(motif)
    if embed if embed is not None else rng.random() < 0.5:
        # the motif as a PROPER vertex subset of the substrate: pendant vertices / a vertex adjacent to two motif vertices
        for w in lab[len(vs):len(vs) + rng.randint(1, 3)]:
            nodes.append(w)
            for x in rng.sample(motif, rng.randint(1, 2)):
                edges.append([w, x])
    rng.shuffle(nodes)
    rng.shuffle(edges)
    calls = []
    i = rng.choice(motif)
    ak = [v for v in motif if v != i or rng.random() < 0.2]
    rng.shuffle(ak)
    ne = _induced_count(nodes, edges, ak, i)
    ks = list(range(0, ne + 2))
    rng.shuffle(ks)
    calls += [["ncg", nodes, edges, ak, i, k] for k in ks]
    # the same substrate seen from another focal vertex with one vertex left out (a smaller induced subgraph)
    drop = rng.choice(motif)
    i2 = rng.choice([v for v in motif if v != drop])
    ak2 = [v for v in motif if v not in (drop, i2)]
    rng.shuffle(ak2)
    ne2 = _induced_count(nodes, edges, ak2, i2)
    ks2 = list(range(0, ne2 + 1))
    rng.shuffle(ks2)
    calls += [["ncg", nodes, edges, ak2, i2, k] for k in ks2[:5]]
    return {"calls": calls}


# ------------------------------------------------------------------ the equations reached through MessagePassing
# MessagePassing.resolve_equation(focal, cover label, messages) is the library's public route to the motif equations:
# the motif is the one written in the label "<key>-[vertices]-[edges]-<uid>" (key = an integer NAMING the topology --
# message_passing_mixin.get_motif_topology is int(key); nothing says it is the clique size).  ["mpclique", tau, phi, Hs,
# opts] / ["mpcycle", n, u, phi, opts] ask for the value of a K_tau / C_n motif of a covered network through that route
# and are judged by the same verified checker as clique_equation / chordless_cycle_equation (closed form of the motif of
# the label).  opts = {"m": motif, "others": other motifs of the cover (pendant edges, motifs glued at a vertex, for
# cycles the CHORDS covered as separate 2-cliques), "focal": vertex, "fmt": spelling of the literals}.
MP_KEYMODES = ["size", "edges", "index", "index0", "big", "verts"]
MP_FMTS = ["list", "tight", "tuple", "mixed"]
MP_LABELS = list(range(0, 16)) + [17, 31, 32, 33, 63, 64, 65, 100, 255, 256, 257, 300, 1000, 70000]


def _mp_key(mode, n, e, i):
    if mode == "size":
        return n if e == tri(n) else 10 * n + 1
    if mode == "edges":
        return e if e == tri(n) else 100 * e + 7
    if mode == "index":
        return i + 1
    if mode == "index0":
        return i
    if mode == "verts":
        return n            # the vertex count, also for a chordless cycle (a 4-cycle keyed 4 is not a K4)
    return 1000 + 37 * i


def _mp_opts(rng, shape, n, keymode=None, fmt=None, chords=0.0, labels=None, uid_mode=None):
    """a covered network around ONE clique / cycle motif on n vertices"""
    keymode = keymode or rng.choice(MP_KEYMODES)
    lab = list(labels or MP_LABELS)
    rng.shuffle(lab)
    vs = lab[:n]
    rest = lab[n:]
    if shape == "clique":
        es = [[vs[a], vs[b]] for a in range(n) for b in range(a + 1, n)]
    else:
        es = [[vs[a], vs[(a + 1) % n]] for a in range(n)]
    own = {frozenset(e) for e in es}
    es = [e if rng.random() < 0.5 else [e[1], e[0]] for e in es]
    rng.shuffle(es)
    order = list(vs)
    rng.shuffle(order)
    others = []
    for a in range(n):
        for b in range(a + 1, n):
            if frozenset((vs[a], vs[b])) not in own and rng.random() < chords:
                others.append({"verts": [vs[a], vs[b]], "edges": [[vs[b], vs[a]]]})
    for _ in range(rng.randint(0, 2)):
        a = rng.choice(vs)
        w = rest.pop()
        if rng.random() < 0.6:
            others.append({"verts": [w, a], "edges": [[a, w]]})
        else:
            x = rest.pop()
            others.append({"verts": [a, w, x], "edges": [[a, w], [w, x], [x, a]]})
    idx = [0, 1, 2]
    rng.shuffle(idx)
    m = {"verts": order, "edges": es, "key": _mp_key(keymode, n, len(es), idx[0])}
    for o in others:
        k = len(o["verts"])
        same = k == n and len(o["edges"]) == len(es)      # the same topology carries the same key
        o["key"] = m["key"] if same else _mp_key(keymode, k, len(o["edges"]), idx[1] if k == 2 else idx[2])
        if not same and o["key"] == m["key"]:
            o["key"] += 500
    uid_mode = uid_mode or rng.choice(["low", "high"])
    ids = rng.sample(range(0, len(others) + 4), len(others) + 1) if uid_mode == "low" else \
        rng.sample(range(5000, 5100), len(others) + 1)
    m["id"] = ids[0]
    for o, i in zip(others, ids[1:]):
        o["id"] = i
    return {"m": m, "others": others, "fmt": fmt or rng.choice(MP_FMTS)}


def _mp_clique_calls(rng, tau, opts, n_extra=1):
    """every focal vertex with distinct variables per neighbour; then other H values / phi on the same object"""
    atoms = [X(2), X(3), X(4), X(5), CONST(1), CONST(0), CONST(2), [[1, [0, 1]], [-1, [0, 0, 1]]]]
    calls = []
    for f in opts["m"]["verts"]:
        calls.append(["mpclique", tau, X(1), [X(i + 2) for i in range(tau - 1)], dict(opts, focal=f)])
    for _ in range(n_extra):
        f = rng.choice(opts["m"]["verts"])
        calls.append(["mpclique", tau, rng.choice([X(1), X(1), CONST(1), [[1, []], [-1, [1]]], CONST(2)]),
                      [rng.choice(atoms) for _ in range(tau - 1)], dict(opts, focal=f)])
    return calls


def _mp_cycle_calls(rng, n, opts, n_extra=1):
    calls = []
    for f in rng.sample(opts["m"]["verts"], min(n, 3)):
        calls.append(["mpcycle", n, X(2), X(1), dict(opts, focal=f)])
    for _ in range(n_extra):
        f = rng.choice(opts["m"]["verts"])
        calls.append(["mpcycle", n, rng.choice([X(2), X(3), CONST(1), CONST(0), X(1), CONST(3)]),
                      rng.choice([X(1), X(1), CONST(1), [[1, []], [-1, [1]]], CONST(2)]), dict(opts, focal=f)])
    return calls


def _mp_cases(rng, thorough=False):
    """structured: every clique size 2..5 under every key mode; every cycle 3..8 with and without its chords covered
    by foreign 2-cliques; then random ones"""
    out = []
    k = 0
    for km in MP_KEYMODES:
        calls = []
        for tau in (2, 3, 4, 5):
            opts = _mp_opts(rng, "clique", tau, keymode=km, fmt=MP_FMTS[k % len(MP_FMTS)],
                            labels=list(range(0, 12)) if k % 2 == 0 else None)
            calls += _mp_clique_calls(rng, tau, opts, n_extra=1)[: (3 if tau == 5 else 99)]
            k += 1
        rng.shuffle(calls)
        out.append({"calls": calls})
    for ch in (1.0, 0.0, 0.5):
        calls = []
        for n in (3, 4, 5, 6, 7, 8):
            opts = _mp_opts(rng, "cycle", n, keymode=MP_KEYMODES[k % len(MP_KEYMODES)], fmt=MP_FMTS[k % len(MP_FMTS)],
                            chords=ch if n <= 6 else ch * 0.4)
            calls += _mp_cycle_calls(rng, n, opts, n_extra=1)
            k += 1
        rng.shuffle(calls)
        out.append({"calls": calls})
    for _ in range(30 if thorough else 4):
        calls = []
        for _ in range(rng.randint(2, 4)):
            if rng.random() < 0.5:
                tau = rng.choice([2, 2, 3, 3, 4, 4, 5])
                calls += _mp_clique_calls(rng, tau, _mp_opts(rng, "clique", tau), n_extra=2)[-4:]
            else:
                n = rng.randint(3, 9)
                calls += _mp_cycle_calls(rng, n, _mp_opts(rng, "cycle", n, chords=rng.choice([0.0, 0.5, 1.0])), n_extra=2)
        # plain calls of the closed forms interleaved (one interpreter state)
        calls.append(_clique_call(rng.randint(2, 4)))
        rng.shuffle(calls)
        out.append({"calls": calls})
    return out

def _all_graphs(nv):
    pairs = [[a, b] for a in range(nv) for b in range(a + 1, nv)]
    for mask in range(1 << len(pairs)):
        yield [p for j, p in enumerate(pairs) if mask >> j & 1]


def generate(rng, tier):
    thorough = tier == "thorough"
    nmax = 18 if thorough else 12
    # ---- the equations through MessagePassing.resolve_equation (cheap and discriminating: first)
    for c in _mp_cases(rng, thorough):
        yield c
    # ---- Q: every n fresh (top-down recursion on an empty cache), all k, ascending / descending
    for n in range(0, nmax + 1):
        # thorough: the n = 7 sweep is judged by the checker against brute force (2^21 edge subsets)
        yield {"calls": _q_sweep(n, "asc"), **({"deep": True} if thorough and n == 7 else {})}
    for n in range(2, 10):
        yield {"calls": _q_sweep(n, "desc") + _q_sweep(n - 1, "asc")}
    # one interpreter state, all (n,k) n<=9 in shuffled order, every pair called twice
    pairs = [["Q", n, k] for n in range(1, 10) for k in range(0, tri(n) + 1)]
    for _ in range(3 if thorough else 1):
        p2 = pairs + pairs
        rng.shuffle(p2)
        yield {"calls": p2}
    # bottom-up fill of the cache, then top rows again
    yield {"calls": [c for n in range(1, nmax + 1) for c in _q_sweep(n)] + _q_sweep(nmax, "desc")}
    # ---- QQ (n <= 6) alone and interleaved with Q
    for n in range(0, 6):
        yield {"calls": [["QQ", n, k] for k in range(-1, tri(n) + 2)]}
    yield {"calls": [["QQ", 6, k] for k in range(15, -1, -1)]}
    mix = [[f, n, k] for n in range(1, 6) for k in range(0, tri(n) + 1) for f in ("Q", "QQ")]
    rng.shuffle(mix)
    yield {"calls": mix + mix[: len(mix) // 3]}
    # ---- number_of_connected_graphs: all graphs on 4 labelled vertices x all ak (i = 0) x all k
    for es in _all_graphs(4):
        calls = []
        for mask in range(8):
            ak = [v for j, v in enumerate([1, 2, 3]) if mask >> j & 1]
            ne = _induced_count([0, 1, 2, 3], es, ak, 0)
            calls += [["ncg", [0, 1, 2, 3], es, ak, 0, k] for k in range(0, ne + 2)]
        yield {"calls": calls}
    if thorough:
        for es in _all_graphs(5):
            calls = []
            for _ in range(2):
                ak = [v for v in [0, 1, 2, 3, 4] if rng.random() < 0.8]
                i = rng.randrange(5)
                ne = _induced_count([0, 1, 2, 3, 4], es, ak, i)
                calls += [["ncg", [0, 1, 2, 3, 4], es, ak, i, k] for k in range(0, ne + 2)]
            yield {"calls": calls}
    # structured substrates: well-connected blocks glued by thin joints (min degree / edge connectivity / vertex
    # connectivity all different), every pair of small blocks under a bridge first, then random ones
    for b1, b2 in ((("K", 3), ("K", 3)), (("K", 4), ("K", 3)), (("K", 4), ("K", 4)), (("C", 4), ("K", 3))):
        yield _structured_case(rng, 16, blocks=[b1, b2], joint="bridge", embed=False)
    for _ in range(120 if thorough else 24):
        yield _structured_case(rng, 16 if thorough else 14)
    for _ in range(400 if thorough else 70):
        yield _ncg_case(rng, 11 if thorough else 9)
    # histories on ONE graph object edited in place between calls (stale caches, damaged inputs)
    for _ in range(150 if thorough else 30):
        yield _ncg_history_case(rng, 10 if thorough else 9)
    # two nearly equal graph objects alive at once; substrates with 9..24 vertices and large labels
    for _ in range(80 if thorough else 20):
        c = _two_objects_case(rng)
        if c["calls"]:
            yield c
    for _ in range(80 if thorough else 20):
        c = _big_sparse_case(rng, 10 if thorough else 9)
        if c["calls"]:
            yield c
    # ---- clique equation
    for tau in range(0, 7):
        yield {"calls": [_clique_call(tau)]}
    yield {"calls": [_clique_call(t) for t in (5, 3, 6, 2, 4, 3)]}
    # beyond the sizes the exact expectation can be enumerated for: correspondence with the model only
    yield {"calls": [_clique_call(7)]}
    if thorough:
        yield {"calls": [_clique_call(8), _clique_call(9)]}
    yield {"calls": [["cycle", n, X(2), X(1)] for n in ((17, 33, 64, 65) if not thorough else (17, 20, 33, 64, 65, 100, 129))]}
    for _ in range(60 if thorough else 16):
        tau = rng.randint(2, 5)
        atoms = [X(2), X(3), X(4), CONST(1), CONST(0), CONST(2), [[1, [0, 1]], [-1, [0, 0, 1]]], [[1, []], [-1, [1]]]]
        ln = tau - 1 if rng.random() < 0.8 else rng.randint(0, tau + 1)
        hs = [rng.choice(atoms) for _ in range(ln)]
        phi = X(1) if rng.random() < 0.7 else rng.choice([CONST(1), CONST(0), [[1, []], [-1, [1]]], X(2), CONST(2)])
        yield {"calls": [_clique_call(tau, hs, phi)]}
    # histories on the equations: same tau / same n asked again with other H values, other phi, the same
    # arguments again (memoisation keyed too coarsely), one shared Hs list object edited in place
    atoms = [X(2), X(3), X(4), X(5), CONST(1), CONST(0), CONST(2), [[1, [0, 1]], [-1, [0, 0, 1]]]]
    phis = [X(1), X(1), CONST(1), [[1, []], [-1, [1]]], X(2)]
    for _ in range(40 if thorough else 12):
        tau = rng.randint(2, 5)
        calls = []
        for _step in range(rng.randint(3, 6)):
            hs = [rng.choice(atoms) for _ in range(tau - 1)]
            calls.append(_clique_call(tau, hs, rng.choice(phis)))
            if rng.random() < 0.3:
                calls.append(_clique_call(tau, hs[::-1], calls[-1][2]))
            if rng.random() < 0.3:
                calls.append(list(calls[rng.randrange(len(calls))]))
            if rng.random() < 0.25:
                tau = rng.randint(2, 5)
        yield {"calls": calls}
    for _ in range(20 if thorough else 6):
        n = rng.randint(3, 8)
        calls = []
        for _step in range(rng.randint(3, 6)):
            calls.append(["cycle", n, rng.choice([X(2), CONST(1), X(3), CONST(0), X(1)]), rng.choice(phis)])
            if rng.random() < 0.3:
                calls.append(list(calls[rng.randrange(len(calls))]))
            if rng.random() < 0.25:
                n = rng.randint(3, 8)
        yield {"calls": calls}
    # ---- cycle equation
    cmax = 16 if thorough else 12
    yield {"calls": [["cycle", n, X(2), X(1)] for n in range(0, cmax + 1)]}
    for _ in range(30 if thorough else 10):
        n = rng.randint(1, 9)
        u = rng.choice([X(2), CONST(1), CONST(0), X(1), [[1, [0, 1]], [1, [0, 0, 1]]], CONST(3)])
        phi = rng.choice([X(1), X(1), CONST(1), CONST(0), [[1, []], [-1, [1]]], CONST(2)])
        yield {"calls": [["cycle", n, u, phi]]}


# ------------------------------------------------------------------ implementation side
def _canon_value(r):
    """canonical observation of a returned count / polynomial"""
    from fractions import Fraction
    if isinstance(r, Poly):
        d, monos = r.int_monos()
        return ["p", d, monos]
    if isinstance(r, bool):
        return ["v", int(r)]
    if isinstance(r, int):
        return ["v", r]
    try:
        f = Fraction(r)
    except Exception:  # noqa: BLE001
        return ["x", repr(r)[:80]]
    if f.denominator == 1:
        return ["v", int(f)]
    return ["q", f.numerator, f.denominator]


def _as_poly_obs(o):
    """a number returned where a polynomial is expected is the constant polynomial"""
    if o[0] == "v":
        return ["p", 1, [[o[1], []]] if o[1] else []]
    if o[0] == "q":
        return ["p", o[2], [[o[1], []]]]
    return o


def _sync_graph(G, nodes, edges):
    """edit the graph OBJECT in place until it has exactly these nodes / edges (a caller growing and shrinking
    its substrate between queries); nodes, edges and the graph carry attribute data"""
    want_n = set(nodes)
    for v in [v for v in G.nodes() if v not in want_n]:
        G.remove_node(v)
    for v in nodes:
        if v not in G:
            G.add_node(v, label="v%d" % v, weight=v * 0.5)
    want_e = {(min(a, b), max(a, b)) for a, b in edges}
    for a, b in [e for e in G.edges()]:
        if (min(a, b), max(a, b)) not in want_e:
            G.remove_edge(a, b)
    for a, b in edges:
        if not G.has_edge(a, b):
            G.add_edge(a, b, motif_id=100 + 10 * a + b, topology="t%d" % ((a + b) % 3))


def _snapshot(G, ak):
    import copy
    return copy.deepcopy((list(G.nodes(data=True)), list(G.edges(data=True)), dict(G.graph),
                          {v: list(G.adj[v]) for v in G.nodes()}, list(ak)))


def impl(case):
    import importlib
    import sys
    import networkx as nx
    import gcmpy.message_passing.number_connected_graphs  # noqa: F401
    import gcmpy.message_passing.equations.clique_equation  # noqa: F401
    import gcmpy.message_passing.equations.chordless_cycle_equation  # noqa: F401
    # every case starts from a fresh interpreter state of the three anchored modules (lru_caches and any other
    # module-level memo are gone), so a case is reproducible in isolation; WITHIN the case the state persists
    mods = []
    for name in ("gcmpy.message_passing.number_connected_graphs",
                 "gcmpy.message_passing.equations.clique_equation",
                 "gcmpy.message_passing.equations.chordless_cycle_equation"):
        mods.append(importlib.reload(sys.modules[name]))
    ncgmod = mods[0]
    clique_equation = mods[1].clique_equation
    chordless_cycle_equation = mods[2].chordless_cycle_equation
    graphs = {}
    hs_obj = []          # ONE list object for the Hs argument of every clique call of the case
    mp_objs = {}         # ONE MessagePassing object per covered network of the case
    out = []
    for call in case["calls"]:
        kind = call[0]
        try:
            if kind == "Q":
                r = _canon_value(ncgmod.Q(call[1], call[2]))
            elif kind == "QQ":
                r = _canon_value(ncgmod.QQ(call[1], call[2]))
            elif kind == "ncg":
                key = call[6] if len(call) > 6 else json.dumps([call[1], call[2]])
                if key not in graphs:
                    G = nx.Graph(name="substrate", tag=[1, 2])
                    graphs[key] = (G, [])
                G, ak_obj = graphs[key]
                _sync_graph(G, call[1], call[2])
                ak_obj[:] = list(call[3])
                before = _snapshot(G, ak_obj)
                r = _canon_value(ncgmod.number_of_connected_graphs(G, ak_obj, call[4], call[5]))
                if _snapshot(G, ak_obj) != before:
                    r = r + ["input-changed"]
            elif kind == "clique":
                phi = Poly.from_monos(call[2])
                hs_obj[:] = [Poly.from_monos(h) for h in call[3]]
                before = list(hs_obj)
                r = _as_poly_obs(_canon_value(clique_equation(call[1], phi, hs_obj)))
                if len(hs_obj) != len(before) or any(a is not b for a, b in zip(hs_obj, before)):
                    r = r + ["input-changed"]
            elif kind == "cycle":
                r = _as_poly_obs(_canon_value(chordless_cycle_equation(call[1], Poly.from_monos(call[2]),
                                                                       Poly.from_monos(call[3]))))
            elif kind in ("mpclique", "mpcycle"):
                r = _mp_call(mp_objs, call)
            else:
                r = ["x", "unknown call"]
        except RecursionError:
            r = ["e", "RecursionError"]
        except Exception as e:  # noqa: BLE001 - mutated code may raise anything
            if type(e).__name__ == "ImplTimeout":
                raise
            r = ["e", type(e).__name__]
        out.append(r)
    return out


def _mp_call(mp_objs, call):
    """value of the K_tau / C_n motif of the covered network opts through MessagePassing.resolve_equation"""
    import copy
    import networkx as nx
    from gcmpy.message_passing.message_passing import MessagePassing
    from harness.props.c15 import _fmt_label, _fresh_int
    kind, size, opts = call[0], call[1], call[4]
    m = opts["m"]
    key = json.dumps([m, opts["others"], opts["fmt"]], sort_keys=True)
    if key not in mp_objs:
        G = nx.Graph(note="net")
        ins = []
        for mm in [m] + list(opts["others"]):
            lab = _fmt_label(mm, opts["fmt"])
            ins += [(e[0], e[1], lab) for e in mm["edges"]]
        # edge insertion order interleaves the motifs (deterministic: by the sum of the end points)
        ins.sort(key=lambda t: ((t[0] + t[1]) % 7, t[0], t[1]))
        for j, (a, b, lab) in enumerate(ins):
            G.add_edge(a, b, CoverLabel=lab, w=j)
        nx.set_node_attributes(G, {v: "v%d" % v for v in G.nodes()}, "lab")
        # iterations = 0: theoretical(phi) only installs the occupation probability (the public way to set it)
        mp_objs[key] = [MessagePassing(G, iterations=0), G, _fmt_label(m, opts["fmt"]), None]
    ent = mp_objs[key]
    mp, G, label = ent[0], ent[1], ent[2]
    if kind == "mpclique":
        phi, vals = Poly.from_monos(call[2]), [Poly.from_monos(h) for h in call[3]]
    else:
        phi, vals = Poly.from_monos(call[3]), [Poly.from_monos(call[2])] * (size - 1)
    pk = json.dumps(call[2] if kind == "mpclique" else call[3])
    if ent[3] != pk:
        mp.theoretical(phi)
        ent[3] = pk
    focal = opts["focal"]
    others = [v for v in m["verts"] if v != focal]
    prods = {_fresh_int(v): h for v, h in zip(others, vals)}
    keep = list(prods.items())
    before = copy.deepcopy((list(G.nodes(data=True)), list(G.edges(data=True)), {v: list(G.adj[v]) for v in G.nodes()}))
    r = _as_poly_obs(_canon_value(mp.resolve_equation(_fresh_int(focal), str(label), prods)))
    after = (list(G.nodes(data=True)), list(G.edges(data=True)), {v: list(G.adj[v]) for v in G.nodes()})
    if before != after or len(keep) != len(prods) or any(a[0] != b[0] or a[1] is not b[1] for a, b in zip(keep, prods.items())):
        r = r + ["input-changed"]
    return r


# ------------------------------------------------------------------ model side
def _in_table(call):
    return call[0] == "Q" and call[1] >= 1 and 0 <= call[2] <= tri(call[1])


def _model_tree(call):
    kind = call[0]
    if kind == "Q":
        return [0, call[1], call[2]]
    if kind == "QQ":
        return [1, call[1], call[2]]
    if kind == "ncg":
        return [2, call[1], call[2], call[3], call[4], call[5]]
    if kind in ("clique", "mpclique"):
        return [3, call[1], call[2], call[3]]
    if kind in ("cycle", "mpcycle"):
        return [4, call[1], call[2], call[3]]
    raise ValueError(kind)


def _plan(case):
    """(table size or 0, list of (call index, tree) for individually modelled calls, de-duplicated)"""
    calls = case["calls"]
    tabn = max([c[1] + 1 for c in calls if _in_table(c)], default=0)
    uniq = {}
    order = []
    for c in calls:
        if _in_table(c):
            continue
        k = _mkey(c)
        if k not in uniq:
            uniq[k] = len(order)
            order.append(_model_tree(c))
    return tabn, uniq, order


def _mkey(c):
    if c[0] in ("mpclique", "mpcycle"):     # the model's answer is the closed form of the motif of the label
        return json.dumps([c[0][2:]] + c[1:4])
    return json.dumps(c[:6] if c[0] == "ncg" else c)


def model_calls(case, impl_obs):
    tabn, uniq, order = _plan(case)
    out = []
    if tabn:
        out.append(("c16_run", [5, tabn]))
    out += [("c16_run", t) for t in order]
    return out


def _dec_model(call, raw):
    if isinstance(raw, str):
        return ["x", raw]
    if raw and raw[0] == -1:
        return ["e", EXC.get(raw[1], "outside-model-domain")]
    if call[0] in ("clique", "cycle", "mpclique", "mpcycle"):
        return ["p", 1, canon_monos(raw[1])]
    return ["v", raw[1]]


def model_obs(case, raws):
    tabn, uniq, order = _plan(case)
    pos = 0
    table = None
    if tabn:
        table = raws[0]
        pos = 1
    out = []
    for c in case["calls"]:
        if _in_table(c):
            out.append(["v", table[c[1]][c[2]]])
        else:
            out.append(_dec_model(c, raws[pos + uniq[_mkey(c)]]))
    return out


def _show(call):
    if call[0] == "ncg":
        return ("number_of_connected_graphs(nodes=%s, edges=%s, ak=%s, i=%s, k=%s)" % tuple(call[1:6])
                + (" [same graph object %r, edited in place]" % call[6] if len(call) > 6 else ""))
    if call[0] == "clique":
        return "clique_equation(tau=%s, phi=%s, Hs=%s)" % tuple(call[1:])
    if call[0] == "cycle":
        return "chordless_cycle_equation(n=%s, u=%s, phi=%s)" % tuple(call[1:])
    if call[0] in ("mpclique", "mpcycle"):
        o = call[4]
        args = ("tau=%s, phi=%s, messages=%s" if call[0] == "mpclique" else "n=%s, u=%s (every neighbour), phi=%s") % tuple(call[1:4])
        return ("MessagePassing.resolve_equation(focal=%s, label of the %s motif key=%s vertices=%s edges=%s uid=%s; %s) "
                "[other motifs of the cover: %s; literals spelled %r]"
                % (o["focal"], "clique" if call[0] == "mpclique" else "cycle", o["m"]["key"], o["m"]["verts"], o["m"]["edges"],
                   o["m"]["id"], args, [(x["key"], x["verts"]) for x in o["others"]], o["fmt"]))
    return "%s(%s, %s)" % tuple(call)


def compare(case, impl_obs, model):
    if isinstance(impl_obs, list) and impl_obs and impl_obs[0] == "!exc":
        return f"implementation raised {impl_obs[1]}"
    if len(impl_obs) != len(model):
        return "length mismatch"
    for j, (c, a, b) in enumerate(zip(case["calls"], impl_obs, model)):
        if a != b:
            return f"call #{j} {_show(c)}: impl {str(a)[:300]} model {str(b)[:300]}"
    return None


# ------------------------------------------------------------------ verified checker on the impl's outputs
CHECK_TAU_MAX = 6      # exact expectation on K_tau has 2^(tau(tau-1)/2) terms
CHECK_CYCLE_MAX = 16


def in_domain(call):
    """inputs the property speaks about (the code must return a value there)"""
    kind = call[0]
    if kind in ("Q", "QQ"):
        return call[1] >= 1 and 0 <= call[2] <= tri(call[1])
    if kind == "ncg":
        vs = [v for v in call[1] if v == call[4] or v in call[3]]
        return call[5] >= 0 and len(vs) > 0
    if kind in ("clique", "mpclique"):
        return call[1] >= 2 and len(call[3]) == call[1] - 1
    if kind in ("cycle", "mpcycle"):
        return call[1] >= 3
    return False


def _check_tree(call, obs, deep=False):
    kind = call[0]
    if obs[0] not in ("v", "p"):
        return None
    if kind in ("Q", "QQ"):
        return [0 if kind == "Q" else 1, call[1], call[2], obs[1], 7 if deep else 6]
    if kind == "ncg":
        return [2, call[1], call[2], call[3], call[4], call[5], obs[1]]
    if kind in ("clique", "mpclique"):
        if call[1] > CHECK_TAU_MAX:
            return None
        return [3, call[1], call[2], call[3], obs[1], obs[2]]
    if kind in ("cycle", "mpcycle"):
        if call[1] > CHECK_CYCLE_MAX:
            return None
        return [4, call[1], call[2], call[3], obs[1], obs[2]]
    return None


ROW_MIN_N = 8


def _rows(case, impl_obs):
    """n -> [r_0 .. r_s] for the n >= ROW_MIN_N whose Q(n, k) was asked for EVERY k in 0..n(n-1)/2 with one and the
    same integer answer per k: those are judged by one whole-row checker call (one recurrence table per row)"""
    seen = {}
    for c, o in zip(case["calls"], impl_obs):
        if c[0] == "Q" and c[1] >= ROW_MIN_N and in_domain(c):
            seen.setdefault(c[1], {}).setdefault(c[2], set()).add(json.dumps(o))
    rows = {}
    for n, d in seen.items():
        if len(d) == tri(n) + 1 and all(len(v) == 1 for v in d.values()):
            vals = [json.loads(next(iter(d[k]))) for k in range(tri(n) + 1)]
            if all(v[0] == "v" and len(v) == 2 for v in vals):
                rows[n] = [v[1] for v in vals]
    return rows


def _check_plan(case, impl_obs):
    uniq = {}
    order = []
    if isinstance(impl_obs, list) and impl_obs and impl_obs[0] == "!exc":
        return uniq, order
    deep = bool(case.get("deep"))
    rows = _rows(case, impl_obs)
    for n in sorted(rows):
        uniq[("row", n)] = len(order)
        order.append([5, n, 7 if deep else 6, rows[n]])
    for c, o in zip(case["calls"], impl_obs):
        if not in_domain(c):
            continue
        if c[0] == "Q" and c[1] in rows:
            continue
        t = _check_tree(c, o, deep)
        if t is None:
            continue
        k = json.dumps(t)
        if k not in uniq:
            uniq[k] = len(order)
            order.append(t)
    return uniq, order


def check_calls(case, impl_obs):
    return [("c16_check", t) for t in _check_plan(case, impl_obs)[1]]


WHAT = {"Q": "the number of connected labelled graphs with n vertices and k edges",
        "QQ": "the number of connected labelled graphs with n vertices and k edges",
        "ncg": "the number of ways to delete k edges from the induced subgraph and stay connected",
        "clique": "the exact bond-percolation expectation on the clique (as a polynomial)",
        "cycle": "the exact bond-percolation expectation on the cycle (as a polynomial)",
        "mpclique": "the exact bond-percolation expectation on the clique written in the cover label (as a polynomial)",
        "mpcycle": "the exact bond-percolation expectation on the cycle written in the cover label (as a polynomial)"}


def check_verdict(case, impl_obs, raws):
    if isinstance(impl_obs, list) and impl_obs and impl_obs[0] == "!exc":
        return f"implementation raised {impl_obs[1]}"
    uniq, order = _check_plan(case, impl_obs)
    for j, (c, o) in enumerate(zip(case["calls"], impl_obs)):
        if not in_domain(c):
            continue
        if o[0] == "e":
            return f"call #{j} {_show(c)} raised {o[1]} on an input the property covers"
        if o[-1] == "input-changed":
            return (f"call #{j} {_show(c)} modified its caller's arguments (graph nodes / edges / attribute data / "
                    f"adjacency order, or the ak / Hs list): the counter and the equations are pure queries")
        if o[0] not in ("v", "p") or (c[0] in ("clique", "cycle", "mpclique", "mpcycle")) != (o[0] == "p"):
            return f"call #{j} {_show(c)} returned {str(o)[:200]}, which is not {WHAT[c[0]]}"
        if c[0] == "Q" and ("row", c[1]) in uniq:
            raw = raws[uniq[("row", c[1])]]
            if raw != 1:
                return (f"calls Q({c[1]}, k), k = 0..{tri(c[1])}, returned {str(_rows(case, impl_obs)[c[1]])[:300]}: "
                        f"c16_check says at least one entry is not {WHAT['Q']}")
            continue
        t = _check_tree(c, o, bool(case.get("deep")))
        if t is None:
            continue
        raw = raws[uniq[json.dumps(t)]]
        if raw not in (1, 2):
            return (f"call #{j} {_show(c)} returned {str(o)[:300]}: c16_check says this is not {WHAT[c[0]]}"
                    + (f" (checker answer {raw})" if raw != 0 else ""))
    return None


# ------------------------------------------------------------------ evidence helpers
def nontrivial_key(case, impl_obs):
    if not isinstance(impl_obs, list) or (impl_obs and impl_obs[0] == "!exc"):
        return None
    for c, o in zip(case["calls"], impl_obs):
        if in_domain(c) and ((o[0] == "v" and o[1] != 0) or (o[0] == "p" and o[2])):
            return case["calls"]
    return None


def shrink(case):
    calls = case["calls"]
    rest = {k: v for k, v in case.items() if k != "calls"}
    n = len(calls)
    if n > 8:
        for part in (calls[: n // 2], calls[n // 2:], calls[: 3 * n // 4], calls[n // 4:]):
            yield {"calls": part, **rest}
    if n <= 60:
        for i in range(n):
            yield {"calls": calls[:i] + calls[i + 1:], **rest}
    else:
        step = max(1, n // 30)
        for i in range(0, n, step):
            yield {"calls": calls[:i] + calls[i + step:], **rest}


def describe(case, impl_obs):
    calls = case["calls"]
    return {"n_calls": len(calls), "first_calls": [_show(c)[:160] for c in calls[:4]],
            "first_results": [str(o)[:160] for o in (impl_obs[:4] if isinstance(impl_obs, list) else [])]}


def histogram(cases):
    h = {"cases": len(cases)}
    for c in cases:
        for call in c["calls"]:
            h[call[0]] = h.get(call[0], 0) + 1
            if call[0] in ("Q", "QQ", "clique", "cycle", "mpclique", "mpcycle"):
                k = f"{call[0]}_n={call[1]}"
                h[k] = h.get(k, 0) + 1
    return h


def search(rng, tier, seeds):
    batch = []
    for c in generate(rng, tier):
        batch.append(c)
        if len(batch) == 100:
            yield batch
            batch = []
    if batch:
        yield batch
