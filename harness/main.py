import argparse
import os
import sys

from harness import core


def main():
    ap = argparse.ArgumentParser()
    ap.add_argument("pid")
    ap.add_argument("--tier", default=os.environ.get("VERIF_TIER", "quick"), choices=["quick", "thorough"])
    ap.add_argument("--replay", default=None)
    a = ap.parse_args()
    seed = int(os.environ.get("VERIF_SEED", "0") or 0)
    sys.exit(core.main_check(a.pid.upper(), a.tier, seed, a.replay))


if __name__ == "__main__":
    main()
