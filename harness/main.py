import argparse
import os
import sys

from harness import core


def main():
    ap = argparse.ArgumentParser()
    ap.add_argument("pid")
    ap.add_argument("--tier", default=os.environ.get("VERIF_TIER", "quick"), choices=["quick", "thorough"])
    ap.add_argument("--replay", default=None)
    a = ap.parse_args()
    seed = int(os.environ.get("VERIF_SEED", "0") or 0)
    try:
        rc = core.main_check(a.pid.upper(), a.tier, seed, a.replay)
    except Exception as e:  # noqa: BLE001
        # the machinery itself failed: the property is not shown to hold on this tree -> say so in the agreed format
        import traceback
        pid = a.pid.upper()
        path = core.write_replay(pid, "harness-crash", {"case": None},
                                 {"obligation": f"harness/props/{pid.lower()}.py + harness/core.py ran to completion",
                                  "fatal": f"{e!r}\n{traceback.format_exc()}"})
        print(f"VIOLATION property={pid} replay={path} no-failing-input-found")
        rc = 1
    sys.exit(rc)


if __name__ == "__main__":
    main()
