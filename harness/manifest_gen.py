"""Regenerates MANIFEST.json from the table below (run: /venv/bin/python -m harness.manifest_gen)."""
import json
import os

ROOT = os.path.dirname(os.path.dirname(os.path.abspath(__file__)))

BASE = "cd /repo && /venv/bin/python -m pytest -ra -q -p no:cacheprovider --timeout=900 --continue-on-collection-errors"

# id -> (technique, level text, level note, design ref)
CLAIMS = {
    "C20": (
        "Coq proof (invariant + refinement to a plain set, induction over histories) + model/implementation correspondence",
        "General theorems in coq/Props/C20.v: for every finite add/remove/draw/contains/len/iter history the model's "
        "outputs satisfy the plain-set specification, the list/dict invariant holds in every reachable state, every "
        "member can be drawn, removal of an absent element raises and leaves the state unchanged. The model is tied to "
        "gcmpy/tools/draw_set.py by an every-step exact comparison of outputs, _edges and _edge_hashmap "
        "(exhaustive short histories + random long ones), and the verified checker c20_check judges the "
        "implementation's own outputs.",
        "Trusted: Coq kernel; extraction (ExtrOcamlBasic) + OCaml driver + Python harness for the correspondence; "
        "CPython random.choice indexing. No axioms (Print Assumptions: closed under the global context).",
        "DESIGN.md section 5, C20",
    ),
}

PENDING_REASON = "check not built yet in this revision of /verif (work in progress; see DESIGN.md section 8 build order)"


def main():
    props = [json.loads(l) for l in open(os.path.join(ROOT, "properties.jsonl"))]
    checks = []
    na = []
    for p in props:
        pid = p["id"]
        if pid in CLAIMS:
            tech, text, note, ref = CLAIMS[pid]
            checks.append({
                "property_id": pid,
                "quick_cmd": f"./check {pid} --tier quick",
                "thorough_cmd": f"./check {pid} --tier thorough",
                "evidence_file": f"/verif/evidence/{pid}.json",
                "replay_cmd_template": f"./check {pid} --replay {{path}}",
                "engine": "gv-coq",
                "level_claimed": {"category": "proof", "text": text, "design_ref": ref},
                "level_note": note,
                "technique": tech,
            })
        else:
            na.append({"property_id": pid, "reason": PENDING_REASON})
    man = {
        "version": 1,
        "setup_cmd": "./build.sh",
        "hooks": {
            "guard": "GCMPY_VERIF",
            "enable": "no source hooks: the harness imports gcmpy from /repo (PYTHONPATH=/repo) and scripts the "
                      "`random` entry points from outside; GCMPY_VERIF is reserved and unused",
            "baseline_off_cmd": BASE,
            "source_commits": [],
            "add_only": True,
        },
        "engines": [{
            "name": "gv-coq",
            "path": "/verif/coq",
            "serves_properties": sorted(CLAIMS),
            "kind_free_text": "Coq 8.16.1 development (hand-written Gallina model + theorems), extracted to OCaml "
                              "(ocaml/driver) and tied to /repo by a differential correspondence check with scripted "
                              "randomness (harness/)",
        }],
        "checks": checks,
        "notes": "Entry point ./check <id> [--tier quick|thorough] [--replay file]. VERIF_SEED honoured. "
                 "known_findings.json lists repaired defects (fixed entries suppress nothing).",
        "not_applicable": na,
    }
    with open(os.path.join(ROOT, "MANIFEST.json"), "w") as f:
        json.dump(man, f, indent=1)
    print(f"MANIFEST: {len(checks)} checks, {len(na)} pending")


if __name__ == "__main__":
    main()
