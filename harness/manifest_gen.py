"""Regenerates MANIFEST.json from the table below (run: /venv/bin/python -m harness.manifest_gen)."""
import json
import os

ROOT = os.path.dirname(os.path.dirname(os.path.abspath(__file__)))

BASE = "cd /repo && /venv/bin/python -m pytest -ra -q -p no:cacheprovider --timeout=900 --continue-on-collection-errors"

import importlib


def load_claims():
    """a property is claimed when harness/props/cxx.py exists and defines TECHNIQUE, LEVEL_TEXT, LEVEL_NOTE"""
    claims = {}
    for n in range(1, 21):
        pid = f"C{n:02d}"
        if not os.path.exists(os.path.join(ROOT, "harness", "props", pid.lower() + ".py")):
            continue
        if not os.path.exists(os.path.join(ROOT, "coq", "Props", pid + ".v")):
            continue
        m = importlib.import_module(f"harness.props.{pid.lower()}")
        if not all(hasattr(m, a) for a in ("TECHNIQUE", "LEVEL_TEXT", "LEVEL_NOTE")):
            continue
        text = m.LEVEL_TEXT
        if getattr(m, "PARTIAL", None):
            text += " NOT PROVED / PARTIAL: " + "; ".join(m.PARTIAL)
        claims[pid] = (m.TECHNIQUE, text, m.LEVEL_NOTE, getattr(m, "DESIGN_REF", f"DESIGN.md section 5 and 9.3, {pid}"))
    return claims


PENDING_REASON = "check not built yet in this revision of /verif (work in progress; see DESIGN.md section 8 build order)"


def main():
    CLAIMS = load_claims()
    props = [json.loads(l) for l in open(os.path.join(ROOT, "properties.jsonl"))]
    checks = []
    na = []
    for p in props:
        pid = p["id"]
        if pid in CLAIMS:
            tech, text, note, ref = CLAIMS[pid]
            checks.append({
                "property_id": pid,
                "quick_cmd": f"./check {pid} --tier quick",
                "thorough_cmd": f"./check {pid} --tier thorough",
                "evidence_file": f"/verif/evidence/{pid}.json",
                "replay_cmd_template": f"./check {pid} --replay {{path}}",
                "engine": "gv-coq",
                "level_claimed": {"category": "proof", "text": text, "design_ref": ref},
                "level_note": note,
                "technique": tech,
            })
        else:
            na.append({"property_id": pid, "reason": PENDING_REASON})
    man = {
        "version": 1,
        "setup_cmd": "./build.sh",
        "hooks": {
            "guard": "GCMPY_VERIF",
            "enable": "no source hooks: the harness imports gcmpy from /repo (PYTHONPATH=/repo) and scripts the "
                      "`random` entry points from outside; GCMPY_VERIF is reserved and unused",
            "baseline_off_cmd": BASE,
            "source_commits": [],
            "add_only": True,
        },
        "engines": [{
            "name": "gv-coq",
            "path": "/verif/coq",
            "serves_properties": sorted(CLAIMS),
            "kind_free_text": "Coq 8.16.1 development (hand-written Gallina model + theorems), extracted to OCaml "
                              "(ocaml/driver) and tied to /repo by a differential correspondence check with scripted "
                              "randomness (harness/)",
        }],
        "checks": checks,
        "notes": "Entry point ./check <id> [--tier quick|thorough] [--replay file]. VERIF_SEED honoured. "
                 "known_findings.json lists repaired defects (fixed entries suppress nothing).",
        "not_applicable": na,
    }
    with open(os.path.join(ROOT, "MANIFEST.json"), "w") as f:
        json.dump(man, f, indent=1)
    print(f"MANIFEST: {len(checks)} checks, {len(na)} pending")


if __name__ == "__main__":
    main()
